// Package hutil is the worker side of the vcheck driver protocol: a harness
// test binary reads its shard spec from $VERIF_SPEC, explores its share of the
// cells and writes one JSON result file that the driver merges into the
// evidence file.
package hutil

import (
	"crypto/sha1"
	"encoding/hex"
	"encoding/json"
	"fmt"
	"os"
	"runtime"
	"runtime/debug"
	"sort"
	"strconv"
	"strings"
	"sync/atomic"
	"time"

	"github.com/yandex/pandora/zverif/vs"
)

type Spec struct {
	Property string          `json:"property"`
	Tier     string          `json:"tier"`
	Worker   int             `json:"worker"`
	Workers  int             `json:"workers"`
	Seed     int64           `json:"seed"`
	Out      string          `json:"out"`
	BudgetS  float64         `json:"budget_s"`
	Replay   json.RawMessage `json:"replay,omitempty"`
	Only     string          `json:"only,omitempty"`
	RaceLog  string          `json:"race_log,omitempty"`
	// Skip: this worker continues the shard of a predecessor that stopped at its memory limit; the
	// first Skip cells (in Begin order) are done already.
	Skip int `json:"skip,omitempty"`
}

type Violation struct {
	Key    string `json:"key"`
	Msg    string `json:"msg"`
	Replay any    `json:"replay"`
	Flaky  bool   `json:"flaky,omitempty"`
}

type Out struct {
	Cells       int64            `json:"cells"`
	Evals       int64            `json:"evaluations"`
	States      int64            `json:"states"`
	Transitions int64            `json:"transitions"`
	Distinct    int64            `json:"distinct_nontrivial"`
	Exhaustive  bool             `json:"exhaustive"`
	Caps        []string         `json:"caps,omitempty"`
	Samples     []any            `json:"samples,omitempty"`
	Violations  []Violation      `json:"violations,omitempty"`
	Extra       map[string]int64 `json:"extra,omitempty"`
	Notes       []string         `json:"notes,omitempty"`
	HarnessErr  string           `json:"harness_error,omitempty"`
	WallS       float64          `json:"wall_s"`
	// ResumeSkip >= 0: stopped at the memory limit; a fresh worker process can go on with Skip = this
	ResumeSkip int `json:"resume_skip"`

	spec    *Spec
	start   time.Time
	current string
	beat    int64
	memTick int
	memStop bool
	begun   int
	seen    map[string]struct{}
	vkeys   map[string]int
	stopped bool
}

func Load() (*Spec, *Out) {
	p := os.Getenv("VERIF_SPEC")
	if p == "" {
		return nil, nil
	}
	b, err := os.ReadFile(p)
	if err != nil {
		panic(err)
	}
	s := &Spec{}
	if err := json.Unmarshal(b, s); err != nil {
		panic(err)
	}
	if s.Workers <= 0 {
		s.Workers = 1
	}
	o := &Out{Exhaustive: true, Extra: map[string]int64{}, spec: s, start: time.Now(), seen: map[string]struct{}{}, vkeys: map[string]int{}, ResumeSkip: -1}
	go o.watchdog()
	vs.ResourceStop = func() string {
		if o.memCheck(true) {
			return "worker memory limit"
		}
		return ""
	}
	return s, o
}

// Progress names the cell being explored (for the stuck-worker watchdog).
func (o *Out) Progress(cell string) {
	o.current = cell
	atomic.AddInt64(&o.beat, 1)
}

// BeatPtr lets an explorer count executions as progress.
func (o *Out) BeatPtr() *int64 { return &o.beat }

// watchdog: a worker that makes no progress for StuckAfter of real time is stuck
// in code the scheduler does not control (an un-instrumented spin or a real
// block). That is not a verdict: the worker reports a harness error naming the
// cell (driver exit 2) and the cell is classified by hand.
var StuckAfter = 120 * time.Second

func (o *Out) watchdog() {
	last, lastAt := int64(-1), time.Now()
	for {
		time.Sleep(2 * time.Second)
		b := atomic.LoadInt64(&o.beat)
		if b != last {
			last, lastAt = b, time.Now()
			continue
		}
		if last > 0 && time.Since(lastAt) > StuckAfter {
			msg := fmt.Sprintf("worker stuck for %v of real time in cell %q (code outside the scheduler's control spins or blocks); not a verdict", StuckAfter, o.current)
			b, _ := json.Marshal(map[string]any{"harness_error": msg, "exhaustive": false})
			_ = os.WriteFile(o.spec.Out, b, 0o644)
			fmt.Fprintln(os.Stderr, msg)
			os.Exit(3)
		}
	}
}

// Mine reports whether cell i belongs to this worker.
func (s *Spec) Mine(i int) bool { return i%s.Workers == s.Worker }

func (s *Spec) Thorough() bool { return s.Tier == "thorough" }

// Deadline is the real-time instant after which a worker should stop starting
// new work and report exhaustive:false.
func (o *Out) Deadline() time.Time {
	if o.spec.BudgetS <= 0 {
		return time.Time{}
	}
	return o.start.Add(time.Duration(o.spec.BudgetS * float64(time.Second)))
}

// MemLimit: executions that end pruned or blocked leak their natively blocked goroutines (with
// whatever they hold); a worker that has grown past this stops starting new cells and reports a cap.
// It is the resident set size that counts (a -race build keeps several times the Go heap in shadow
// memory); the limit is this worker's share of 70% of the machine's memory, at most 7 GiB.
var MemLimit uint64 = 7 << 30

func procKB(file, field string) uint64 {
	b, err := os.ReadFile(file)
	if err != nil {
		return 0
	}
	for _, l := range strings.Split(string(b), "\n") {
		if strings.HasPrefix(l, field) {
			f := strings.Fields(l[len(field):])
			if len(f) > 0 {
				v, _ := strconv.ParseUint(f[0], 10, 64)
				return v
			}
		}
	}
	return 0
}

func (o *Out) memLimit() uint64 {
	lim := MemLimit
	if v, err := strconv.ParseUint(os.Getenv("VERIF_MEMLIMIT_MB"), 10, 64); err == nil && v > 0 {
		return v << 20 // (for trying out the restart-after-memory-stop path)
	}
	if tot := procKB("/proc/meminfo", "MemTotal:") << 10; tot > 0 && o.spec != nil && o.spec.Workers > 0 {
		if share := tot / 10 * 7 / uint64(o.spec.Workers); share < lim {
			lim = share
		}
	}
	return lim
}

// Begin names the cell that starts now (like Progress) and reports whether it is to be explored: a
// worker restarted after a memory stop skips the cells its predecessors have done.
func (o *Out) Begin(cell string) bool {
	o.begun++
	if o.spec != nil && o.begun <= o.spec.Skip {
		return false
	}
	o.Progress(cell)
	return true
}

// memCheck looks at the resident set size every 16th call. inCell: called from inside an exploration
// (the cell in progress stays unfinished) rather than between two cells.
func (o *Out) memCheck(inCell bool) bool {
	o.memTick++
	if o.memTick%16 == 0 && !o.memStop {
		rss := procKB("/proc/self/status", "VmRSS:") << 10
		if rss == 0 {
			var ms runtime.MemStats
			runtime.ReadMemStats(&ms)
			rss = ms.Sys
		}
		if rss > o.memLimit() {
			// garbage of finished executions may simply not have been collected yet
			debug.FreeOSMemory()
			o.Extra["forced_gc"]++
			rss = procKB("/proc/self/status", "VmRSS:") << 10
		}
		if rss > o.memLimit() {
			o.stopped = true
			o.memStop = true
			if o.begun > 0 {
				o.ResumeSkip = o.begun
				if inCell {
					o.ResumeSkip = o.begun - 1
				}
			}
			o.Cap("worker memory reached %d MiB (leaked goroutines of abandoned executions); remaining cells and executions not explored", rss>>20)
		}
	}
	return o.memStop
}

func (o *Out) OverBudget() bool {
	if o.memCheck(false) {
		return true
	}
	d := o.Deadline()
	if !d.IsZero() && time.Now().After(d) {
		if !o.stopped {
			o.stopped = true
			o.Cap("real-time budget of %.0fs reached; remaining cells not explored", o.spec.BudgetS)
		}
		return true
	}
	return false
}

func (o *Out) Cap(format string, a ...any) {
	o.Exhaustive = false
	if len(o.Caps) < 20 {
		o.Caps = append(o.Caps, fmt.Sprintf(format, a...))
	}
}

// Outcome records a terminal observation; distinct ones are counted.
func (o *Out) Outcome(cell string, obs string) {
	h := sha1.Sum([]byte(cell + "\x00" + obs))
	k := hex.EncodeToString(h[:8])
	if _, ok := o.seen[k]; !ok {
		o.seen[k] = struct{}{}
		o.Distinct++
	}
}

func (o *Out) Sample(v any) {
	if len(o.Samples) < 6 {
		o.Samples = append(o.Samples, v)
	}
}

// Violate records a violation; at most 3 per key are kept.
func (o *Out) Violate(key, msg string, replay any) {
	o.vkeys[key]++
	if o.vkeys[key] > 2 || len(o.Violations) > 200 {
		return
	}
	o.Violations = append(o.Violations, Violation{Key: key, Msg: msg, Replay: replay})
}

func (o *Out) NViolations() int { return len(o.Violations) }

func (o *Out) Save() {
	o.WallS = time.Since(o.start).Seconds()
	for b, n := range vs.BoundDoneCounts {
		o.Extra[fmt.Sprintf("explorations_completed_bound_%d", b)] += n
	}
	// resource figures of this worker (max over workers after the merge would be better; the sum is
	// what the driver computes, so these are read per worker in out_<k>.json when debugging)
	o.Extra["worker_goroutines_at_end"] += int64(runtime.NumGoroutine())
	o.Extra["worker_rss_mib_at_end"] += int64(procKB("/proc/self/status", "VmRSS:") >> 10)
	o.Extra["leaked_threads"] += vs.LeakedTotal
	for k, n := range vs.LeakKinds {
		o.Extra["leak:"+k] += n
	}
	sort.SliceStable(o.Violations, func(i, j int) bool { return o.Violations[i].Key < o.Violations[j].Key })
	b, err := json.Marshal(o)
	if err != nil {
		panic(err)
	}
	if err := os.WriteFile(o.spec.Out, b, 0o644); err != nil {
		panic(err)
	}
}

// RaceReports returns the race detector reports written since the last call
// (GORACE log_path=<RaceLog>; the runtime appends ".<pid>").
func (s *Spec) RaceReports(offset *int64) string {
	if s.RaceLog == "" {
		return ""
	}
	p := fmt.Sprintf("%s.%d", s.RaceLog, os.Getpid())
	b, err := os.ReadFile(p)
	if err != nil || int64(len(b)) <= *offset {
		return ""
	}
	out := string(b[*offset:])
	*offset = int64(len(b))
	return out
}
