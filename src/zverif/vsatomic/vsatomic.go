// Package vsatomic replaces "sync/atomic" in rewritten pandora files (typed
// values only; the repository does not use the function forms).
package vsatomic

import (
	"sync/atomic"

	"github.com/yandex/pandora/zverif/vs"
)

type (
	Int32          = atomic.Int32
	Uint32         = atomic.Uint32
	Value          = atomic.Value
	Bool           = atomic.Bool
)

// Pointer passes through (generic aliases need go1.23 language level).
type Pointer[T any] struct{ atomic.Pointer[T] }

//go:norace
func pt(obj any) { vs.PointOp(vs.OpAtomic, obj) }

type Uint64 struct{ v atomic.Uint64 }

func (i *Uint64) Load() uint64                    { pt(i); return i.v.Load() }
func (i *Uint64) Store(x uint64)                  { pt(i); i.v.Store(x) }
func (i *Uint64) Add(d uint64) uint64             { pt(i); return i.v.Add(d) }
func (i *Uint64) Swap(x uint64) uint64            { pt(i); return i.v.Swap(x) }
func (i *Uint64) CompareAndSwap(o, n uint64) bool { pt(i); return i.v.CompareAndSwap(o, n) }

type Int64 struct{ v atomic.Int64 }

func (i *Int64) Load() int64                    { pt(i); return i.v.Load() }
func (i *Int64) Store(x int64)                  { pt(i); i.v.Store(x) }
func (i *Int64) Add(d int64) int64              { pt(i); return i.v.Add(d) }
func (i *Int64) Swap(x int64) int64             { pt(i); return i.v.Swap(x) }
func (i *Int64) CompareAndSwap(o, n int64) bool { pt(i); return i.v.CompareAndSwap(o, n) }
