// Package h_c18 decides C18: the full cross product of plugin constructor
// shapes x requested form x default-config variants x user settings x failure
// positions, each followed by a sequence of factory calls, executed on the
// real core/plugin registry and compared call by call with a reference model.
package h_c18

import (
	"encoding/json"
	"errors"
	"fmt"
	"reflect"
	"strings"
	"testing"

	"github.com/yandex/pandora/core/plugin"
	"github.com/yandex/pandora/zverif/hutil"
)

type P interface {
	Serial() int
}

type impl struct {
	serial int
	conf   *Conf // the config object this product was built from (nil: no config)
	byPtr  bool
}

func (i *impl) Serial() int { return i.serial }

type Conf struct {
	A int
	B string
	M map[string]int
}

var (
	confT  = reflect.TypeOf(Conf{})
	confPT = reflect.TypeOf(&Conf{})
	implT  = reflect.TypeOf(&impl{})
	pT     = reflect.TypeOf((*P)(nil)).Elem()
	errT   = reflect.TypeOf((*error)(nil)).Elem()
)

var errInjected error = errors.New("INJECTED constructor failure")
var errFill error = errors.New("INJECTED config fill failure")

// errors of other kinds than a pointer: a struct value (like context.DeadlineExceeded) and a string type
type structErr struct{ msg string }

func (e structErr) Error() string { return e.msg }

type stringErr string

func (e stringErr) Error() string { return string(e) }

func setErrKind(kind string) {
	const a, b = "INJECTED constructor failure", "INJECTED config fill failure"
	switch kind {
	case "struct":
		errInjected, errFill = structErr{a}, structErr{b}
	case "string":
		errInjected, errFill = stringErr(a), stringErr(b)
	default:
		errInjected, errFill = errors.New(a), errors.New(b)
	}
}

type Shape struct {
	Factory  bool   `json:"factory"`   // registered constructor returns a factory
	IfaceRes bool   `json:"iface_res"` // result type is the interface (else the implementation)
	Err      bool   `json:"err"`       // plugin constructor / inner factory has an error result
	OuterErr bool   `json:"outer_err"` // factory constructor has an error result
	Config   string `json:"config"`    // none | struct | ptr
	Default  string `json:"default"`   // none | given | nilptr
	Request  string `json:"request"`   // new | factory | factory-err
	Settings string `json:"settings"`  // none | one | fail | fail2 (fill fails on its 2nd call)
	FailAt   string `json:"fail_at"`   // none | outer | inner1 | inner2
	ErrKind  string `json:"err_kind,omitempty"` // dynamic type of the injected errors: "" (pointer) | struct | string
}

func (s Shape) Name() string {
	b, _ := json.Marshal(s)
	return string(b)
}

// world records what the registered functions saw.
type world struct {
	s          Shape
	defCalls   int
	fillCalls  int
	outerCalls int
	innerCalls int // plugin constructor calls, or inner factory calls
	confs      []Conf
	confPtrs   []*Conf
	serial     int
}

func (w *world) mkPlugin(conf *Conf, byPtr bool) (reflect.Value, reflect.Value) {
	w.innerCalls++
	resT := implT
	if w.s.IfaceRes {
		resT = pT
	}
	fail := (w.s.FailAt == "inner1" && w.innerCalls == 1) || (w.s.FailAt == "inner2" && w.innerCalls == 2)
	if fail {
		return reflect.Zero(resT), reflect.ValueOf(&errInjected).Elem()
	}
	w.serial++
	p := &impl{serial: w.serial, conf: conf, byPtr: byPtr}
	v := reflect.ValueOf(p)
	if w.s.IfaceRes {
		iv := reflect.New(pT).Elem()
		iv.Set(v)
		v = iv
	}
	return v, reflect.Zero(errT)
}

func (w *world) noteConf(in []reflect.Value) (*Conf, bool) {
	if len(in) == 0 {
		return nil, false
	}
	var c *Conf
	byPtr := false
	if in[0].Kind() == reflect.Ptr {
		c = in[0].Interface().(*Conf)
		byPtr = true
	} else {
		cc := in[0].Interface().(Conf)
		c = &cc
	}
	cp := *c
	if c.M != nil {
		cp.M = map[string]int{}
		for k, v := range c.M {
			cp.M[k] = v
		}
	}
	w.confs = append(w.confs, cp)
	w.confPtrs = append(w.confPtrs, c)
	return c, byPtr
}

func (w *world) build() (ctor any, def any) {
	s := w.s
	var in []reflect.Type
	switch s.Config {
	case "struct":
		in = []reflect.Type{confT}
	case "ptr":
		in = []reflect.Type{confPT}
	}
	resT := implT
	if s.IfaceRes {
		resT = pT
	}
	out := []reflect.Type{resT}
	if s.Err {
		out = append(out, errT)
	}
	if !s.Factory {
		ft := reflect.FuncOf(in, out, false)
		ctor = reflect.MakeFunc(ft, func(args []reflect.Value) []reflect.Value {
			c, byPtr := w.noteConf(args)
			v, e := w.mkPlugin(c, byPtr)
			if s.Err {
				return []reflect.Value{v, e}
			}
			return []reflect.Value{v}
		}).Interface()
	} else {
		innerT := reflect.FuncOf(nil, out, false)
		outerOut := []reflect.Type{innerT}
		if s.OuterErr {
			outerOut = append(outerOut, errT)
		}
		ft := reflect.FuncOf(in, outerOut, false)
		ctor = reflect.MakeFunc(ft, func(args []reflect.Value) []reflect.Value {
			w.outerCalls++
			c, byPtr := w.noteConf(args)
			inner := reflect.MakeFunc(innerT, func([]reflect.Value) []reflect.Value {
				v, e := w.mkPlugin(c, byPtr)
				if s.Err {
					return []reflect.Value{v, e}
				}
				return []reflect.Value{v}
			})
			if s.OuterErr {
				if s.FailAt == "outer" {
					return []reflect.Value{reflect.Zero(innerT), reflect.ValueOf(&errInjected).Elem()}
				}
				return []reflect.Value{inner, reflect.Zero(errT)}
			}
			return []reflect.Value{inner}
		}).Interface()
	}
	switch s.Default {
	case "given":
		if s.Config == "struct" {
			def = func() Conf { w.defCalls++; return Conf{A: 1, B: "default", M: map[string]int{"d": 1}} }
		} else {
			def = func() *Conf { w.defCalls++; return &Conf{A: 1, B: "default", M: map[string]int{"d": 1}} }
		}
	case "nilptr":
		def = func() *Conf { w.defCalls++; return nil }
	}
	return ctor, def
}

func (w *world) fill() func(conf interface{}) error {
	s := w.s
	if s.Settings == "none" {
		return nil
	}
	return func(conf interface{}) error {
		w.fillCalls++
		if s.Settings == "fail" || (s.Settings == "fail2" && w.fillCalls == 2) {
			return errFill
		}
		if c, ok := conf.(*Conf); ok {
			c.A = 7
		}
		return nil
	}
}

// expected config seen by the constructor
func (s Shape) wantConf() Conf {
	var c Conf
	if s.Default == "given" {
		c = Conf{A: 1, B: "default", M: map[string]int{"d": 1}}
	}
	if s.Settings == "one" || s.Settings == "fail2" {
		c.A = 7
	}
	return c
}

type callResult struct {
	plugin   P
	err      error
	panicked any
}

func protect(f func() (P, error)) (r callResult) {
	defer func() {
		if p := recover(); p != nil {
			r.panicked = p
		}
	}()
	r.plugin, r.err = f()
	return
}

func (r callResult) String() string {
	switch {
	case r.panicked != nil:
		return fmt.Sprintf("panic(%v)", r.panicked)
	case r.err != nil:
		return fmt.Sprintf("error(%v)", r.err)
	case r.plugin == nil:
		return "nil plugin, nil error"
	}
	return fmt.Sprintf("plugin#%d", r.plugin.Serial())
}

const (
	okRes    = "plugin"
	errRes   = "error"
	panicRes = "panic"
)

func (r callResult) kind() string {
	switch {
	case r.panicked != nil:
		return panicRes
	case r.err != nil:
		return errRes
	}
	return okRes
}

func carries(x any, target error) bool {
	switch v := x.(type) {
	case error:
		return errors.Is(v, target) || strings.Contains(v.Error(), target.Error())
	case nil:
		return false
	}
	return strings.Contains(fmt.Sprint(x), target.Error())
}

const calls = 3

func runShape(s Shape) (obs string, verr error) {
	defer func() {
		if r := recover(); r != nil {
			verr = fmt.Errorf("HARNESS-PANIC: %v", r)
		}
	}()
	setErrKind(s.ErrKind)
	w := &world{s: s}
	reg := plugin.NewRegistry()
	ctor, def := w.build()
	if def != nil {
		reg.Register(pT, "x", ctor, def)
	} else {
		reg.Register(pT, "x", ctor)
	}
	hasConf := s.Config != "none"
	want := s.wantConf()
	var fillArgs []func(conf interface{}) error
	if f := w.fill(); f != nil {
		fillArgs = append(fillArgs, f)
	}
	checkConf := func(i int, what string) error {
		if !hasConf {
			return nil
		}
		if i >= len(w.confs) {
			return fmt.Errorf("CONFIG: %s: constructor was not given a config", what)
		}
		if !reflect.DeepEqual(w.confs[i], want) {
			return fmt.Errorf("CONFIG: %s: constructor received %+v, registered defaults overlaid by the user's settings are %+v", what, w.confs[i], want)
		}
		return nil
	}
	var sb strings.Builder
	if s.Request == "new" {
		r := protect(func() (P, error) {
			p, err := reg.New(pT, "x", fillArgs...)
			if p == nil {
				return nil, err
			}
			return p.(P), err
		})
		fmt.Fprintf(&sb, "New=%s", r)
		wantKind, wantCause := okRes, error(nil)
		switch {
		case s.Settings == "fail":
			wantKind, wantCause = errRes, errFill
		case s.Factory && s.FailAt == "outer":
			wantKind, wantCause = errRes, errInjected
		case s.FailAt == "inner1":
			wantKind, wantCause = errRes, errInjected
		}
		if r.kind() != wantKind {
			return sb.String(), fmt.Errorf("OUTCOME: New returned %s, expected %s", r, wantKind)
		}
		if wantCause != nil && !carries(r.err, wantCause) {
			return sb.String(), fmt.Errorf("OUTCOME: New returned %s, expected the error %v", r, wantCause)
		}
		if s.Settings != "none" && w.fillCalls != 1 {
			return sb.String(), fmt.Errorf("FILL: config fill called %d times for one New", w.fillCalls)
		}
		if wantKind == okRes || wantCause == errInjected {
			if err := checkConf(0, "New"); err != nil {
				return sb.String(), err
			}
		}
		return sb.String(), nil
	}
	// factory forms
	var ft reflect.Type
	if s.Request == "factory" {
		ft = reflect.TypeOf(func() P { return nil })
	} else {
		ft = reflect.TypeOf(func() (P, error) { return nil, nil })
	}
	var f any
	nf := protect(func() (P, error) {
		var err error
		f, err = reg.NewFactory(ft, "x", fillArgs...)
		return nil, err
	})
	fmt.Fprintf(&sb, "NewFactory=%s", nf.kind())
	// model of NewFactory itself
	wantNF := okRes
	var wantNFCause error
	if s.Factory {
		// config decoded once, registered factory constructor invoked once, now
		switch {
		case s.Settings == "fail":
			wantNF, wantNFCause = errRes, errFill
		case s.FailAt == "outer":
			wantNF, wantNFCause = errRes, errInjected
		}
	} else if !hasConf && s.Settings == "fail" {
		// no config to fill: the settings are checked once, against an empty struct, when the factory is made
		wantNF, wantNFCause = errRes, errFill
	}
	if wantNF == errRes {
		if nf.kind() != errRes || !carries(nf.err, wantNFCause) {
			return sb.String(), fmt.Errorf("OUTCOME: NewFactory returned %v (panic %v), expected the error %v as its error result", nf.err, nf.panicked, wantNFCause)
		}
		return sb.String(), nil
	}
	if nf.panicked != nil || nf.err != nil || f == nil {
		return sb.String(), fmt.Errorf("OUTCOME: NewFactory failed (%v / panic %v) although nothing has failed yet", nf.err, nf.panicked)
	}
	if s.Factory {
		if s.Settings != "none" && w.fillCalls != 1 {
			return sb.String(), fmt.Errorf("FILL: factory constructor: config fill called %d times at NewFactory, expected once", w.fillCalls)
		}
		if w.outerCalls != 1 {
			return sb.String(), fmt.Errorf("CALLS: registered factory constructor invoked %d times at NewFactory, expected once", w.outerCalls)
		}
		if err := checkConf(0, "NewFactory"); err != nil {
			return sb.String(), err
		}
	} else if (hasConf && w.fillCalls != 0) || w.innerCalls != 0 {
		return sb.String(), fmt.Errorf("CALLS: component constructor: fill called %d times and constructor %d times before any product was requested", w.fillCalls, w.innerCalls)
	}
	var products []*impl
	for k := 1; k <= calls; k++ {
		fill0, inner0, outer0, def0 := w.fillCalls, w.innerCalls, w.outerCalls, w.defCalls
		r := protect(func() (P, error) {
			out := reflect.ValueOf(f).Call(nil)
			var p P
			if !out[0].IsNil() {
				p = out[0].Interface().(P)
				if q, ok := p.(*impl); ok && q == nil {
					p = nil // a typed nil pointer inside the interface: no plugin
				}
			}
			var err error
			if len(out) > 1 && !out[1].IsNil() {
				err = out[1].Interface().(error)
			}
			return p, err
		})
		fmt.Fprintf(&sb, " call%d=%s", k, r)
		// model of call k
		var cause error
		if !s.Factory && hasConf {
			// fresh default config, fill, constructor - per product
			if s.Settings == "fail" || (s.Settings == "fail2" && k == 2) {
				cause = errFill
			}
		}
		if cause == nil {
			// which inner invocation is this? count successful reachings of the constructor
			if (s.FailAt == "inner1" && inner0 == 0) || (s.FailAt == "inner2" && inner0 == 1) {
				cause = errInjected
			}
		}
		wantKind := okRes
		if cause != nil {
			wantKind = errRes
			if s.Request == "factory" {
				wantKind = panicRes
			}
		}
		if r.kind() != wantKind {
			return sb.String(), fmt.Errorf("OUTCOME: factory call %d returned %s, expected %s (cause %v)", k, r, wantKind, cause)
		}
		if cause != nil {
			got := any(r.err)
			if wantKind == panicRes {
				got = r.panicked
			}
			if !carries(got, cause) {
				return sb.String(), fmt.Errorf("OUTCOME: factory call %d: %s does not carry the error %v", k, r, cause)
			}
			if r.plugin != nil {
				return sb.String(), fmt.Errorf("OUTCOME: factory call %d returned a plugin together with an error", k)
			}
		}
		// call counts
		if s.Factory {
			if w.fillCalls != fill0 || w.outerCalls != outer0 || w.defCalls != def0 {
				return sb.String(), fmt.Errorf("CALLS: factory constructor: product %d caused fill +%d, factory constructor +%d, default config +%d calls (config must be decoded once, at NewFactory)", k, w.fillCalls-fill0, w.outerCalls-outer0, w.defCalls-def0)
			}
			if w.innerCalls != inner0+1 {
				return sb.String(), fmt.Errorf("CALLS: registered factory invoked %d times for product %d, expected once", w.innerCalls-inner0, k)
			}
		} else {
			if hasConf && s.Settings != "none" && w.fillCalls != fill0+1 {
				return sb.String(), fmt.Errorf("FILL: component constructor: config fill called %d times for product %d, expected once per product (fresh config each time)", w.fillCalls-fill0, k)
			}
			if hasConf && s.Default != "none" && w.defCalls != def0+1 {
				return sb.String(), fmt.Errorf("FRESH: default config function called %d times for product %d, expected once per product", w.defCalls-def0, k)
			}
			wantInner := 1
			if cause == errFill {
				wantInner = 0
			}
			if w.innerCalls != inner0+wantInner {
				return sb.String(), fmt.Errorf("CALLS: constructor invoked %d times for product %d, expected %d", w.innerCalls-inner0, k, wantInner)
			}
			if wantInner == 1 {
				if err := checkConf(len(w.confs)-1, fmt.Sprintf("product %d", k)); err != nil {
					return sb.String(), err
				}
			}
		}
		if wantKind == okRes {
			p, ok := r.plugin.(*impl)
			if !ok || p == nil {
				return sb.String(), fmt.Errorf("OUTCOME: factory call %d returned %T", k, r.plugin)
			}
			for _, q := range products {
				if q == p {
					return sb.String(), fmt.Errorf("SHARED: factory call %d returned the same product as an earlier call", k)
				}
				if !s.Factory && hasConf && p.conf != nil && q.conf != nil {
					if p.byPtr && p.conf == q.conf {
						return sb.String(), fmt.Errorf("SHARED: products %d and %d were built from the same config object", q.serial, p.serial)
					}
					if p.conf.M != nil && q.conf.M != nil && reflect.ValueOf(p.conf.M).Pointer() == reflect.ValueOf(q.conf.M).Pointer() {
						return sb.String(), fmt.Errorf("SHARED: products %d and %d share the map of their configs", q.serial, p.serial)
					}
				}
			}
			products = append(products, p)
			// a product mutating its own config must not be visible to the next product
			if p.conf != nil && !s.Factory {
				p.conf.A = 99
				p.conf.B = "mutated"
				if p.conf.M != nil {
					p.conf.M["mutated"] = 1
				}
			}
		}
	}
	return sb.String(), nil
}

func shapes() []Shape {
	var out []Shape
	for _, factory := range []bool{false, true} {
		for _, iface := range []bool{false, true} {
			for _, e := range []bool{false, true} {
				outerErrs := []bool{false}
				if factory {
					outerErrs = []bool{false, true}
				}
				for _, oe := range outerErrs {
					for _, cfg := range []string{"none", "struct", "ptr"} {
						defs := []string{"none"}
						switch cfg {
						case "struct":
							defs = []string{"none", "given"}
						case "ptr":
							defs = []string{"none", "given", "nilptr"}
						}
						for _, d := range defs {
							for _, req := range []string{"new", "factory", "factory-err"} {
								for _, set := range []string{"none", "one", "fail", "fail2"} {
									fails := []string{"none"}
									if e {
										fails = append(fails, "inner1", "inner2")
									}
									if factory && oe {
										fails = append(fails, "outer")
									}
									for _, fa := range fails {
										out = append(out, Shape{Factory: factory, IfaceRes: iface, Err: e, OuterErr: oe, Config: cfg, Default: d, Request: req, Settings: set, FailAt: fa})
										if fa != "none" || set == "fail" || set == "fail2" {
											// the same failure carried by an error value that is not a pointer
											for _, ek := range []string{"struct", "string"} {
												out = append(out, Shape{Factory: factory, IfaceRes: iface, Err: e, OuterErr: oe, Config: cfg, Default: d, Request: req, Settings: set, FailAt: fa, ErrKind: ek})
											}
										}
									}
								}
							}
						}
					}
				}
			}
		}
	}
	return out
}

func classify(err error) string {
	s := err.Error()
	if i := strings.Index(s, ":"); i > 0 && i < 24 {
		return s[:i]
	}
	return "other"
}

func TestWorker(t *testing.T) {
	spec, out := hutil.Load()
	if spec == nil {
		t.Skip("no VERIF_SPEC")
	}
	defer out.Save()
	if spec.Replay != nil {
		var s Shape
		if err := json.Unmarshal(spec.Replay, &s); err != nil {
			t.Fatal(err)
		}
		var probe map[string]any
		_ = json.Unmarshal(spec.Replay, &probe)
		if probe["tier"] == "config" {
			runConfigTier(out)
			return
		}
		obs, err := runShape(s)
		fmt.Printf("shape %s\nobserved: %s\nverdict: %v\n", s.Name(), obs, err)
		if err != nil {
			out.Violate("C18|replay", err.Error(), s)
		}
		return
	}
	if spec.Worker == 0 {
		runConfigTier(out)
	}
	all := shapes()
	// closed form: see shapes(): sum over the loops
	for si, s := range all {
		if !spec.Mine(si) || (spec.Only != "" && !strings.Contains(s.Name(), spec.Only)) {
			continue
		}
		out.Cells++
		out.Evals++
		obs, err := runShape(s)
		out.States += calls + 1
		out.Transitions += calls + 1
		out.Outcome(fmt.Sprint(s.Factory, s.Request), obs+s.Config+s.Default+s.Settings+s.FailAt)
		if err != nil {
			k := "component-constructor"
			if s.Factory {
				k = "factory-constructor"
			}
			out.Violate("C18|"+k+"|"+s.Request+"|"+classify(err), s.Name()+"\n"+err.Error()+"\nobserved: "+obs, s)
		}
		if si%487 == 0 {
			out.Sample(map[string]any{"shape": s, "observed": obs})
		}
	}
}
