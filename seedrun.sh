#!/bin/bash
# usage: seedrun.sh <patch> <check id>...
# Tries a seeded change against the quick checks without touching /repo or /verif's evidence: a scratch
# worktree of /repo's HEAD gets the patch, vcheck builds from it (VERIF_REPO) and writes everything
# under a scratch directory (VERIF_SCRATCH). Prints DETECTED/MISSED per check; removes both afterwards.
p=$(readlink -f "$1"); shift
cd /verif
wt=/tmp/seedrun_wt.$$
sc=/tmp/seedrun_out.$$
git -C /repo worktree add --detach "$wt" HEAD >/dev/null 2>&1 || { echo "WORKTREE-FAIL"; exit 2; }
cleanup() { git -C /repo worktree remove --force "$wt" >/dev/null 2>&1; rm -rf "$sc"; }
trap cleanup EXIT
git -C "$wt" apply "$p" || { echo "APPLY-FAIL $p"; exit 2; }
for id in "$@"; do
  out=$(VERIF_REPO="$wt" VERIF_SCRATCH="$sc" timeout 1500 ./vcheck run "$id" --tier quick 2>&1); code=$?
  if [ $code -eq 1 ] && echo "$out" | grep -q "^VIOLATION property=$id"; then
    echo "DETECTED $p by $id: $(echo "$out" | grep -m1 '  key=')"
  else
    echo "MISSED $p by $id (exit $code): $(echo "$out" | tail -2 | tr '\n' ' ')"
  fi
done
