// Package h_c01 decides C01: every valid const/line/step/once profile, built
// through the real config decoding + validation + plugin registry, emits the
// token sequence of the configured rate integral. Bounded-exhaustive
// enumeration of profiles; every token of every profile is compared with an
// exact (math/big.Rat) reference of the integral.
package h_c01

import (
	"encoding/json"
	"fmt"
	"math/big"
	"strings"
	"testing"
	"time"

	"github.com/spf13/afero"
	"github.com/yandex/pandora/core"
	"github.com/yandex/pandora/core/config"
	coreimport "github.com/yandex/pandora/core/import"
	"github.com/yandex/pandora/zverif/hutil"
)

type Cell struct {
	Type     string  `json:"type"`
	From     float64 `json:"from"`
	To       float64 `json:"to"`
	Step     int64   `json:"step,omitempty"`
	Times    int64   `json:"times,omitempty"`
	Duration string  `json:"duration,omitempty"`
}

func (c Cell) Name() string {
	switch c.Type {
	case "const":
		return fmt.Sprintf("const|ops=%v|%s", c.From, c.Duration)
	case "line":
		return fmt.Sprintf("line|%v->%v|%s", c.From, c.To, c.Duration)
	case "step":
		return fmt.Sprintf("step|%v->%v by %d|%s", c.From, c.To, c.Step, c.Duration)
	}
	return fmt.Sprintf("once|%d", c.Times)
}

func (c Cell) conf() map[string]any {
	switch c.Type {
	case "const":
		return map[string]any{"type": "const", "ops": c.From, "duration": c.Duration}
	case "line":
		return map[string]any{"type": "line", "from": c.From, "to": c.To, "duration": c.Duration}
	case "step":
		return map[string]any{"type": "step", "from": c.From, "to": c.To, "step": c.Step, "duration": c.Duration}
	}
	return map[string]any{"type": "once", "times": c.Times}
}

func cells(thorough bool) []Cell {
	rates := []float64{0, 0.5, 1, 2, 3, 7.5, 10, 100, 1000}
	durs := []string{"1ms", "10ms", "500ms", "1s", "1.5s", "2s", "2.5s", "3s", "10s", "60s"}
	if thorough {
		rates = []float64{0, 0.1, 0.25, 0.5, 1, 1.5, 2, 3, 3.3, 5, 7.5, 10, 33, 100, 250, 999.5, 1000, 2000}
		durs = []string{"1ms", "2ms", "10ms", "100ms", "333ms", "500ms", "999ms", "1s", "1.001s", "1.5s", "1999ms", "2s", "2.5s", "3s", "3.7s",
			"10s", "12.345s", "60s", "61.5s", "2m0.5s"}
	}
	var out []Cell
	for _, r := range rates {
		for _, d := range durs {
			out = append(out, Cell{Type: "const", From: r, Duration: d})
		}
	}
	for _, f := range rates {
		for _, t := range rates {
			for _, d := range durs {
				out = append(out, Cell{Type: "line", From: f, To: t, Duration: d})
			}
		}
	}
	// rates whose period is not a whole number of nanoseconds, many tokens (rounding must not accumulate)
	for _, r := range []float64{300, 7000, 30000} {
		for _, d := range []string{"1s", "2.5s", "10s"} {
			out = append(out, Cell{Type: "const", From: r, Duration: d})
		}
	}
	// durations that are not a whole number of milliseconds, with rates high enough for the
	// sub-millisecond part to hold operations
	for _, r := range []float64{1000, 10000, 100000} {
		for _, d := range []string{"2.5ms", "1500us", "1.0005s", "999999us", "1000001ns"} {
			out = append(out, Cell{Type: "const", From: r, Duration: d})
			out = append(out, Cell{Type: "line", From: r, To: 2 * r, Duration: d})
			out = append(out, Cell{Type: "step", From: r, To: 2 * r, Step: int64(r), Duration: d})
		}
	}
	lv := []float64{0, 0.5, 1, 1.5, 2, 3.2, 5, 10}
	steps := []int64{1, 2, 5}
	if thorough {
		lv = []float64{0, 0.5, 1, 1.5, 2, 3.2, 5, 9.9, 10, 25}
		steps = []int64{1, 2, 3, 5, 7}
	}
	for _, f := range lv {
		for _, t := range lv {
			if f > t {
				continue // "step ... increases the load": from > to is outside the documented domain
			}
			for _, s := range steps {
				for _, d := range durs {
					out = append(out, Cell{Type: "step", From: f, To: t, Step: s, Duration: d})
				}
			}
		}
	}
	for _, n := range []int64{1, 2, 3, 133, 10000} {
		out = append(out, Cell{Type: "once", Times: n})
	}
	return out
}

// ---- reference model (exact rationals, seconds)

var (
	ratNs  = big.NewRat(1, 1000000000)
	ratTol = big.NewRat(1, 1000000) // 1 microsecond
	ratEps = big.NewRat(1, 1000000) // 1e-6 operations
)

func rat(f float64) *big.Rat { r := new(big.Rat); r.SetFloat64(f); return r }

func durRat(d time.Duration) *big.Rat { return new(big.Rat).Mul(big.NewRat(int64(d), 1), ratNs) }

// part is one const/line piece: rate goes linearly from a to b over d seconds.
type part struct {
	from, to *big.Rat
	d        *big.Rat
	dur      time.Duration
}

// integral of the rate over [0,t], 0<=t<=d.
func (p part) integral(t *big.Rat) *big.Rat {
	// from*t + (to-from)/d * t^2/2
	r := new(big.Rat).Mul(p.from, t)
	if p.d.Sign() == 0 {
		return r
	}
	s := new(big.Rat).Sub(p.to, p.from)
	s.Quo(s, p.d)
	s.Mul(s, t).Mul(s, t).Quo(s, big.NewRat(2, 1))
	return r.Add(r, s)
}

func floorRat(r *big.Rat) int64 {
	q := new(big.Int).Div(r.Num(), r.Denom()) // Euclidean; floor for positive denominators
	return q.Int64()
}

func clamp(t, lo, hi *big.Rat) *big.Rat {
	if t.Cmp(lo) < 0 {
		return lo
	}
	if t.Cmp(hi) > 0 {
		return hi
	}
	return t
}

// verifyToken checks that a token drawn at offset off from the start of part p
// is the k-th token of that part: the earliest instant at which the integral
// reaches k, within 1us / 1e-6 operations.
func verifyToken(p part, k int64, off time.Duration) error {
	if off < 0 {
		return fmt.Errorf("EARLY: token %d scheduled %v before the start of its part", k, -off)
	}
	if off > p.dur {
		return fmt.Errorf("LATE: token %d scheduled at +%v, after the end of its part (+%v)", k, off, p.dur)
	}
	zero := new(big.Rat)
	t := durRat(off)
	kr := big.NewRat(k, 1)
	lo := p.integral(clamp(new(big.Rat).Sub(t, ratTol), zero, p.d))
	hi := p.integral(clamp(new(big.Rat).Add(t, ratTol), zero, p.d))
	if hi.Cmp(new(big.Rat).Sub(kr, ratEps)) < 0 {
		return fmt.Errorf("TIME: token %d scheduled at +%v where the rate integral is only %s (too early)", k, off, p.integral(t).FloatString(6))
	}
	if lo.Cmp(new(big.Rat).Add(kr, ratEps)) > 0 {
		return fmt.Errorf("TIME: token %d scheduled at +%v where the rate integral is already %s (too late)", k, off, p.integral(t).FloatString(6))
	}
	return nil
}

// checkPart matches the tokens toks[i:] against part p, which starts at start.
// It returns the index of the first token that does not belong to the part.
func checkPart(toks []time.Time, i int, p part, start time.Time) (int, error) {
	total := p.integral(p.d)
	nlo := floorRat(new(big.Rat).Sub(total, ratEps))
	nhi := floorRat(new(big.Rat).Add(total, ratEps))
	if nlo < 0 {
		nlo = 0
	}
	var k int64
	for ; k < nhi; k++ {
		if i >= len(toks) {
			if k >= nlo {
				break
			}
			return i, fmt.Errorf("COUNT: profile ended after %d tokens of this part, the rate integral over its duration is %s (floor %d)", k, total.FloatString(6), floorRat(total))
		}
		err := verifyToken(p, k, toks[i].Sub(start))
		if err != nil {
			if k >= nlo {
				// the integral sits within 1e-6 of an integer: either neighbour is accepted;
				// this token belongs to the next part
				break
			}
			return i, err
		}
		if i > 0 && toks[i].Before(toks[i-1]) {
			return i, fmt.Errorf("ORDER: token at %v before its predecessor at %v", toks[i].Sub(start), toks[i-1].Sub(start))
		}
		i++
	}
	return i, nil
}

func model(c Cell) ([]part, time.Duration, error) {
	if c.Type == "once" {
		return nil, 0, nil
	}
	d, err := time.ParseDuration(c.Duration)
	if err != nil {
		return nil, 0, err
	}
	dr := durRat(d)
	switch c.Type {
	case "const":
		return []part{{rat(c.From), rat(c.From), dr, d}}, d, nil
	case "line":
		return []part{{rat(c.From), rat(c.To), dr, d}}, d, nil
	case "step":
		var ps []part
		if c.From == c.To {
			return []part{{rat(c.From), rat(c.From), dr, d}}, d, nil
		}
		for l := c.From; l <= c.To; l += float64(c.Step) {
			ps = append(ps, part{rat(l), rat(l), dr, d})
		}
		return ps, time.Duration(len(ps)) * d, nil
	}
	return nil, 0, fmt.Errorf("unknown type")
}

type obs struct {
	tokens int64
	sig    string
}

func runCell(c Cell) (o obs, verr error) {
	defer func() {
		if r := recover(); r != nil {
			verr = fmt.Errorf("PANIC: %v", r)
		}
	}()
	var conf struct {
		Schedule core.Schedule
	}
	if err := config.DecodeAndValidate(map[string]any{"schedule": c.conf()}, &conf); err != nil {
		return o, fmt.Errorf("REJECTED: valid profile rejected: %v", err)
	}
	s := conf.Schedule
	t0 := time.Date(2024, 3, 1, 12, 0, 0, 0, time.UTC)
	s.Start(t0)
	var finish time.Time
	if c.Type == "once" {
		finish = t0
		for k := int64(0); k < c.Times; k++ {
			tx, ok := s.Next()
			if !ok {
				return o, fmt.Errorf("COUNT: once(%d) ended after %d tokens", c.Times, k)
			}
			if !tx.Equal(t0) {
				return o, fmt.Errorf("TIME: once token %d at +%v, not at the start instant", k, tx.Sub(t0))
			}
			o.tokens++
		}
	} else {
		parts, total, err := model(c)
		if err != nil {
			return o, fmt.Errorf("HARNESS: %v", err)
		}
		finish = t0.Add(total)
		start := t0
		var sb strings.Builder
		var maxTok int64 = 3
		for _, p := range parts {
			maxTok += floorRat(new(big.Rat).Add(p.integral(p.d), ratEps))
		}
		var toks []time.Time
		for int64(len(toks)) < maxTok {
			tx, ok := s.Next()
			if !ok {
				if !tx.Equal(finish) {
					return o, fmt.Errorf("FINISH: exhausted profile reports finish +%v, start+duration is +%v", tx.Sub(t0), finish.Sub(t0))
				}
				break
			}
			toks = append(toks, tx)
		}
		o.tokens = int64(len(toks))
		i := 0
		for j, p := range parts {
			ni, err := checkPart(toks, i, p, start)
			fmt.Fprintf(&sb, "%d,", ni-i)
			if err != nil {
				return o, fmt.Errorf("%v [part %d of %d]", err, j, len(parts))
			}
			i = ni
			start = start.Add(p.dur)
		}
		if i < len(toks) {
			return o, fmt.Errorf("COUNT: token beyond the rate integral: extra token at +%v after %d matched tokens", toks[i].Sub(t0), i)
		}
		o.sig = sb.String()
	}
	for i := 0; i < 3; i++ {
		tx, ok := s.Next()
		if ok {
			return o, fmt.Errorf("COUNT: token beyond the rate integral: extra token at +%v after %d tokens", tx.Sub(t0), o.tokens)
		}
		if !tx.Equal(finish) {
			return o, fmt.Errorf("FINISH: exhausted profile reports finish +%v, start+duration is +%v (call %d after exhaustion)", tx.Sub(t0), finish.Sub(t0), i+1)
		}
	}
	if l := s.Left(); l != 0 {
		return o, fmt.Errorf("COUNT: Left()=%d after exhaustion", l)
	}
	return o, nil
}

func classify(err error) string {
	s := err.Error()
	if i := strings.Index(s, ":"); i > 0 && i < 24 {
		return s[:i]
	}
	return "other"
}

func TestWorker(t *testing.T) {
	spec, out := hutil.Load()
	if spec == nil {
		t.Skip("no VERIF_SPEC")
	}
	defer out.Save()
	coreimport.Import(afero.NewMemMapFs())
	if spec.Replay != nil {
		var c Cell
		if err := json.Unmarshal(spec.Replay, &c); err != nil {
			t.Fatal(err)
		}
		o, err := runCell(c)
		fmt.Printf("cell %s: tokens=%d parts=%s err=%v\n", c.Name(), o.tokens, o.sig, err)
		if err != nil {
			out.Violate("C01|replay", err.Error(), c)
		}
		return
	}
	all := cells(spec.Thorough())
	want := len(all)
	n := 0
	for ci, c := range all {
		n++
		if !spec.Mine(ci) || (spec.Only != "" && !strings.Contains(c.Name(), spec.Only)) {
			continue
		}
		if out.OverBudget() {
			break
		}
		o, err := runCell(c)
		out.Cells++
		out.Evals++
		out.States += o.tokens + 1
		out.Transitions += o.tokens + 3
		out.Extra["tokens_checked"] += o.tokens
		if o.tokens > 0 {
			out.Outcome(c.Type, fmt.Sprintf("%s|%d", c.Name(), o.tokens))
		}
		if err != nil {
			kind := "whole-second"
			if d, e := time.ParseDuration(c.Duration); e == nil && d%time.Second != 0 {
				kind = "fractional-second"
			}
			out.Violate("C01|"+c.Type+"|"+classify(err)+"|"+kind, c.Name()+": "+err.Error(), c)
		}
		if ci%397 == 0 {
			out.Sample(map[string]any{"profile": c.conf(), "tokens": o.tokens, "tokens_per_part": o.sig})
		}
	}
	if n != want {
		out.HarnessErr = "enumerator produced fewer cells than its closed-form count"
	}
}
