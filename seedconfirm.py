#!/usr/bin/env python3
"""Confirm seeded changes independently: in a scratch worktree of /repo apply the patch, run the demo (must fail), run the
full existing suite (must pass), revert, run the demo (must pass). Stores the confirmed seed under /verif/seeded/<id>-<k>/.
usage: seedconfirm.py <ID> [<ID>...]   (reads /tmp/seedout/<ID>/m*/)"""
import json, os, re, shutil, subprocess, sys
ENV = dict(os.environ, GOFLAGS="-mod=mod", GOPROXY="off", GOSUMDB="off", GOTOOLCHAIN="local")
WT = "/tmp/seed/confirm"
def sh(cmd, cwd=WT, timeout=3000):
    r = subprocess.run(cmd, shell=True, cwd=cwd, env=ENV, capture_output=True, text=True, timeout=timeout)
    return r.returncode, (r.stdout + r.stderr)
def main():
    if not os.path.isdir(WT):
        subprocess.run(["git", "-C", "/repo", "worktree", "add", "--detach", WT, "HEAD"], check=True, capture_output=True)
    for pid in sys.argv[1:]:
        base = "/tmp/seedout/" + pid
        for m in sorted(d for d in os.listdir(base) if re.match(r"m\d+$", d)):
            d = os.path.join(base, m)
            meta = json.load(open(os.path.join(d, "meta.json")))
            sh("git checkout -q --detach $(git -C /repo rev-parse HEAD) && git checkout -- . && git clean -fdq")
            ddir = re.match(r"[\w/.-]+", meta["demo_dir"].strip()).group(0).rstrip("/")
            ddir = ddir.replace("/tmp/seed/%s/" % pid, "")
            mm = re.search(r"-run[ =]+'?\"?([\w^$|.()]+)", meta["demo_cmd"])
            pat = mm.group(1) if mm else "TestSeed"
            demo_dst = os.path.join(WT, ddir, "zz_seed_demo_test.go")
            res = {"property": pid, "seed": m, "demo_dir": ddir, "demo_run": pat}
            rc, out = sh("git apply " + os.path.join(d, "patch.diff"))
            if rc != 0:
                res["error"] = "patch does not apply: " + out[-300:]
                print(json.dumps(res)); continue
            shutil.copy(os.path.join(d, "demo_test.go"), demo_dst)
            race = " -race" if re.search(r"(^|\s)-race(\s|$)", meta["demo_cmd"]) else ""
            demo_cmd = "go test -mod=mod -vet=off%s -count=1 -run '%s' ./%s/" % (race, pat, ddir)
            rc, out = sh(demo_cmd)
            res["demo_with_change"] = "FAIL" if rc != 0 else "PASS"
            res["demo_with_change_tail"] = out[-400:]
            os.remove(demo_dst)
            ok = False
            for attempt in range(2):
                rc, out = sh("go test -mod=mod -vet=off -count=1 ./... 2>&1 | grep -v '^ok\\|no test files'")
                fails = [l for l in out.splitlines() if l.startswith("FAIL") or l.startswith("--- FAIL")]
                if not fails:
                    ok = True
                    break
                pk = sorted(set(re.findall(r"^FAIL\s+github.com/yandex/pandora/(\S+)", out, re.M)))
                other = []
                if pk and not other:
                    # packages that failed in the full run (fixed-port packages colliding with other suite runs, sleep-based
                    # tests on a loaded machine): run those alone; a test the change really breaks fails here every time
                    good = True
                    for q in pk:
                        for again in range(3):
                            rc2, out2 = sh("go test -mod=mod -vet=off -count=1 -p 1 ./%s/" % q)
                            if rc2 == 0:
                                break
                        else:
                            good = False
                    if good:
                        ok = True
                        break
            res["suite_with_change"] = "PASS" if ok else "FAIL: " + "; ".join(fails[:5])
            sh("git checkout -- . && git clean -fdq")
            shutil.copy(os.path.join(d, "demo_test.go"), demo_dst)
            rc, out = sh(demo_cmd)
            res["demo_without_change"] = "PASS" if rc == 0 else "FAIL"
            os.remove(demo_dst)
            res["confirmed"] = res["demo_with_change"] == "FAIL" and res["demo_without_change"] == "PASS" and ok
            print(json.dumps(res), flush=True)
            if res["confirmed"]:
                dst = "/verif/seeded/%s-%s" % (pid, m)
                os.makedirs(dst, exist_ok=True)
                shutil.copy(os.path.join(d, "patch.diff"), dst)
                shutil.copy(os.path.join(d, "demo_test.go"), dst)
                meta2 = {"property": pid, "summary": meta.get("summary"), "files": meta.get("files"),
                         "needs_to_manifest": meta.get("needs_to_manifest"), "demo_dir": ddir, "demo_cmd": demo_cmd,
                         "confirmed_by_me": {"repo_head": subprocess.run(["git", "-C", "/repo", "rev-parse", "--short", "HEAD"], capture_output=True, text=True).stdout.strip(),
                                             "demo_with_change": "FAIL", "demo_without_change": "PASS",
                                             "suite_with_change": "PASS (go test -mod=mod -vet=off -count=1 ./... in a scratch worktree)"},
                         "origin": "independent sub-agent given only the property text and a scratch worktree"}
                json.dump(meta2, open(os.path.join(dst, "meta.json"), "w"), indent=1)
    sh("true")
main()
