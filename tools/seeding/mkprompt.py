#!/usr/bin/env python3
import json, os, subprocess, sys, glob
tmpl = open('/verif/tools/seeding/PROMPT.tmpl').read()
props = {json.loads(l)['id']: json.loads(l) for l in open('/verif/properties.jsonl')}
rnd = sys.argv[1]  # r3
for pid in sys.argv[2:]:
    ID = pid + rnd
    wt = '/tmp/seed/' + ID
    out = '/tmp/seedout/' + ID
    os.makedirs(out, exist_ok=True)
    if not os.path.isdir(wt):
        subprocess.run(['git', '-C', '/repo', 'worktree', 'add', '--detach', wt, 'HEAD'], check=True, capture_output=True)
    p = props[pid]
    json.dump(p, open(out + '/property.json', 'w'), indent=1)
    earlier = []
    for mf in sorted(glob.glob('/verif/seeded/%s-m*/meta.json' % pid) + glob.glob('/verif/seeded/%sr*-m*/meta.json' % pid) + glob.glob('/tmp/seedout/%sr*/m*/meta.json' % pid) + glob.glob('/tmp/seedout/%s/m*/meta.json' % pid)):
        try:
            m = json.load(open(mf))
        except Exception:
            continue
        sm = m.get('summary') or m.get('change', {}).get('summary') or ''
        files = m.get('files') or m.get('change', {}).get('files') or []
        if isinstance(sm, str) and sm:
            line = ' - %s: %s' % (', '.join(files) if isinstance(files, list) else files, sm[:260].replace('\n', ' '))
            if line not in earlier:
                earlier.append(line)
    text = tmpl.replace('@ID@', ID).replace('@STATEMENT@', p['statement'] + '\nQuantifier: ' + p['quantifier']['text'])
    # strip an existing "second round" tail of the template, if any
    cut = text.find('This is a second round')
    if cut > 0:
        text = text[:cut]
    text += '\nThis is a later round. Earlier rounds already produced these changes:\n' + '\n'.join(earlier) + '\nChoose different code sites and different mechanisms (other files or functions among the property\'s anchors, other clauses of the statement, other kinds of input, configuration or timing). Prefer clauses of the statement that none of the earlier changes touched.\n'
    open(out + '/PROMPT.txt', 'w').write(text)
    print(ID, len(earlier), 'earlier changes listed')
