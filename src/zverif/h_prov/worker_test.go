// Package h_prov holds the provider-family checks (C07, C08, C13, C14): real
// providers built through the plugin registry from config maps, reading
// enumerated ammo files from an in-memory fs, run under the vs scheduler so that
// "blocks for ever" and "spins" are deterministic verdicts.
package h_prov

import (
	"context"
	"encoding/json"
	"fmt"
	"io"
	"net/http"
	"strings"
	"sync"
	"testing"
	"time"

	"github.com/spf13/afero"
	grpcimport "github.com/yandex/pandora/components/grpc/import"
	phttpimport "github.com/yandex/pandora/components/phttp/import"
	"github.com/yandex/pandora/core"
	"github.com/yandex/pandora/core/aggregator/netsample"
	"github.com/yandex/pandora/core/config"
	coreimport "github.com/yandex/pandora/core/import"
	"github.com/yandex/pandora/zverif/hutil"
	"github.com/yandex/pandora/zverif/vs"
)

var (
	memfs    = hutil.NewStrictFs()
	initOnce sync.Once
)

func initPlugins() {
	initOnce.Do(func() {
		coreimport.Import(memfs)
		phttpimport.Import(memfs)
		grpcimport.Import(memfs)
	})
}

func newProvider(conf map[string]any) (p core.Provider, err error) {
	defer func() {
		if r := recover(); r != nil {
			err = fmt.Errorf("PANIC in provider construction: %v", r)
		}
	}()
	var h struct{ Ammo core.Provider }
	err = config.DecodeAndValidate(map[string]any{"ammo": deepCopy(conf)}, &h)
	return h.Ammo, err
}

// deepCopy: the plugin hook deletes keys from the map it decodes.
func deepCopy(v any) any {
	switch x := v.(type) {
	case map[string]any:
		m := make(map[string]any, len(x))
		for k, e := range x {
			m[k] = deepCopy(e)
		}
		return m
	case []any:
		l := make([]any, len(x))
		for i, e := range x {
			l[i] = deepCopy(e)
		}
		return l
	}
	return v
}

type httpRec struct {
	W  Want
	ID uint64
}

func extractHTTP(a core.Ammo) any {
	ga, ok := a.(interface {
		Request() (*http.Request, *netsample.Sample)
	})
	if !ok {
		return httpRec{W: Want{Method: fmt.Sprintf("?%T", a)}}
	}
	req, s := ga.Request()
	body := ""
	if req.Body != nil {
		b, _ := io.ReadAll(req.Body)
		body = string(b)
	}
	h := map[string]string{}
	for k, vv := range req.Header {
		if k == "Content-Length" {
			continue
		}
		h[k] = strings.Join(vv, ",")
	}
	return httpRec{W: Want{Method: req.Method, URI: req.URL.RequestURI(), Body: body, Tag: s.Tags(), Host: req.Host, Headers: hdrString(h)}, ID: s.ID()}
}

var formatType = map[string]string{"uri": "uri", "uripost": "uripost", "raw": "raw", "jsonline": "http/json"}

// runner wraps one reusable explorer.
type runner struct {
	e   *vs.Explorer
	out *hutil.Out
}

func newRunner(t *testing.T, out *hutil.Out) *runner {
	e := vs.NewExplorer(t, vs.Opts{MaxPoints: 4000, SpinLimit: 300000}, nil)
	e.RealStop = out.Deadline()
	e.Beat = out.BeatPtr()
	return &runner{e: e, out: out}
}

// explore runs every schedule of sc up to the bound; it returns the first violating execution.
func (r *runner) explore(bound int, sc vs.Scenario) (*vs.Result, bool) {
	e := r.e
	e.Scenario = sc
	e.Opts.Bound = bound
	e.Violation = nil
	e.HarnessErr = false
	e.BoundDone = -1
	e.CapHit = ""
	ex0, n0, s0, p0 := e.Execs, e.Nodes, e.Steps, e.Pruned
	complete := e.Explore()
	r.out.Evals += int64(e.Execs - ex0)
	r.out.States += int64(e.Nodes - n0)
	r.out.Transitions += int64(e.Steps - s0)
	r.out.Extra["pruned_select_duplicates"] += int64(e.Pruned - p0)
	if int64(e.MaxDepth) > r.out.Extra["max_depth"] {
		r.out.Extra["max_depth"] = int64(e.MaxDepth)
	}
	return e.Violation, complete && e.CapHit == ""
}

// ---------------------------------------------------------------------------
// C07

type c07run struct {
	file     File
	deferred bool // every delivered ammo is kept and looked at only after the run (all requests in flight at once)
	conf     map[string]any
	drv  *Drv
	cerr error
}

func (r *c07run) scenario(x *vs.X) func(end, msg string) error {
	data := render(r.file.Format, r.file.Items, r.file.Layout)
	_ = afero.WriteFile(memfs, "/ammo", data, 0o644)
	p, err := newProvider(r.conf)
	r.cerr = err
	r.drv = nil
	if err != nil {
		return func(end, msg string) error {
			return fmt.Errorf("ERROR: well-formed file rejected at construction: %v\nfile:\n%q", err, data)
		}
	}
	ctx, cancel := context.WithCancel(context.Background())
	x.OnAbort(cancel)
	x.Deadline = time.Now().Add(time.Hour)
	d := &Drv{P: p, Consumers: 1, Release: true, Extract: extractHTTP, Deferred: r.deferred}
	r.drv = d
	vs.Go("driver", func() { d.Start(ctx, cancel) })
	return func(end, msg string) error {
		defer cancel()
		d.Resolve()
		if err := r.check(end, msg); err != nil {
			return fmt.Errorf("%v\nfile:\n%q", err, data)
		}
		return nil
	}
}

func (r *c07run) check(end, msg string) error {
	d := r.drv
	if d.RunPanic != "" {
		return fmt.Errorf("PANIC: provider Run panicked: %s", d.RunPanic)
	}
	if d.ConsPanic != "" {
		return fmt.Errorf("PANIC: Acquire panicked: %s", d.ConsPanic)
	}
	if end == vs.EndCap {
		return nil
	}
	if end != vs.EndComplete {
		return fmt.Errorf("HANG: execution ended with %s (%s); delivered %d", end, msg, len(d.Items))
	}
	want1 := model(r.file.Format, r.file.Items)
	var want []Want
	for p := 0; p < 3; p++ {
		want = append(want, want1...)
	}
	got := d.Items
	for i := 0; i < len(want) && i < len(got); i++ {
		g := got[i].(httpRec).W
		w := want[i]
		if g != w {
			what := "CHANGED"
			switch {
			case g.Method != w.Method:
				what += "-method"
			case g.URI != w.URI:
				what += "-uri"
			case g.Body != w.Body:
				what += "-body"
			case g.Tag != w.Tag:
				what += "-tag"
			case g.Host != w.Host:
				what += "-host"
			default:
				what += "-headers"
			}
			if i >= len(want1) {
				what += "-laterpass"
			}
			return fmt.Errorf("%s: delivery %d (pass %d, entry %d)\n   got  %s\n   want %s", what, i, i/len(want1), i%len(want1), g, w)
		}
	}
	if len(got) < len(want) {
		return fmt.Errorf("DROPPED: %d of %d deliveries (3 passes of %d entries); run error: %v", len(got), len(want), len(want1), d.RunErr)
	}
	if len(got) > len(want) {
		return fmt.Errorf("EXTRA: %d deliveries, 3 passes of %d entries are %d; first extra: %s", len(got), len(want1), len(want), got[len(want)].(httpRec).W)
	}
	if d.RunErr != nil {
		return fmt.Errorf("ERROR: provider Run returned %v for a well-formed file", d.RunErr)
	}
	return nil
}

func layoutClass(l Layout) string {
	s := ""
	if !l.FinalNL {
		s += "nofinalnl"
	}
	if l.Blank {
		s += "+blank"
	}
	if l.Surround {
		s += "+surround"
	}
	if s == "" {
		s = "plain"
	}
	if l.JSON != "" {
		s += "+" + l.JSON
	}
	return s
}

func classify(err error) string {
	s := err.Error()
	if i := strings.Index(s, ":"); i > 0 && i < 40 {
		return s[:i]
	}
	return "other"
}

func runC07(t *testing.T, spec *hutil.Spec, out *hutil.Out) {
	rn := newRunner(t, out)
	idx := 0
	total := 0
	for _, format := range []string{"uri", "uripost", "raw", "jsonline"} {
		var mine []File
		total += enumFiles(format, spec.Thorough(), func(f File) {
			idx++
			if spec.Mine(idx) && (spec.Only == "" || strings.Contains(f.Name(), spec.Only)) {
				mine = append(mine, f)
			}
		})
		for fi, f := range mine {
			if out.OverBudget() {
				return
			}
			out.Progress(f.Name())
			r := &c07run{file: f, conf: map[string]any{"type": formatType[format], "file": "/ammo", "passes": 3}}
			if format == "uri" && !f.Layout.Blank && !f.Layout.Surround && fi%3 == 0 {
				// the same entries given inline through the 'uris' option instead of a file
				var lines []any
				for _, ln := range strings.Split(strings.TrimSuffix(string(render(f.Format, f.Items, f.Layout)), "\n"), "\n") {
					lines = append(lines, ln)
				}
				r2 := &c07run{file: f, conf: map[string]any{"type": "uri", "uris": lines, "passes": 3}}
				v2, _ := rn.explore(0, r2.scenario)
				out.Cells++
				out.Extra["uris_option_cells"]++
				if v2 != nil && !rn.e.HarnessErr {
					out.Violate("C07|uri|"+classify(v2.Err)+"|uris-option", f.Name()+" (inline uris)\n"+v2.Err.Error(), map[string]any{"mode": "C07", "file": f})
				}
			}
			v, complete := rn.explore(0, r.scenario)
			out.Cells++
			if v == nil && entries(f.Items) >= 2 {
				// the same file with all delivered requests in flight at once (as with several instances)
				r3 := &c07run{file: f, deferred: true, conf: map[string]any{"type": formatType[format], "file": "/ammo", "passes": 3}}
				if v3, _ := rn.explore(0, r3.scenario); v3 != nil && !rn.e.HarnessErr {
					v = v3
					v.Err = fmt.Errorf("%v (all requests in flight)", strings.Replace(v3.Err.Error(), ":", "-INFLIGHT:", 1))
				}
				out.Extra["inflight_runs"]++
			}
			if rn.e.HarnessErr {
				out.HarnessErr = f.Name() + ": " + v.Err.Error()
				return
			}
			if !complete {
				out.Cap("file %s: %s", f.Name(), rn.e.CapHit)
			}
			if r.drv != nil {
				out.Outcome(format, fmt.Sprint(r.drv.Items))
			}
			if v != nil {
				out.Violate("C07|"+format+"|"+classify(v.Err)+"|"+layoutClass(f.Layout), f.Name()+"\n"+v.Err.Error(), map[string]any{"mode": "C07", "file": f})
			}
			if fi%997 == 0 {
				out.Sample(map[string]any{"format": format, "file_bytes": string(render(f.Format, f.Items, f.Layout)), "deliveries": len(r.drv.Items)})
			}
		}
	}
	out.Extra["files_enumerated_all_workers"] = int64(total)
}

// ---------------------------------------------------------------------------

type replayT struct {
	Mode string          `json:"mode"`
	File File            `json:"file"`
	Cell json.RawMessage `json:"cell,omitempty"`
	Raw  json.RawMessage `json:"-"`
}

func TestWorker(t *testing.T) {
	spec, out := hutil.Load()
	if spec == nil {
		t.Skip("no VERIF_SPEC")
	}
	defer out.Save()
	initPlugins()
	if spec.Replay != nil {
		var rp replayT
		if err := json.Unmarshal(spec.Replay, &rp); err != nil {
			t.Fatal(err)
		}
		rp.Raw = spec.Replay
		rn := newRunner(t, out)
		switch rp.Mode {
		case "C07":
			r := &c07run{file: rp.File, conf: map[string]any{"type": formatType[rp.File.Format], "file": "/ammo", "passes": 3}}
			v, _ := rn.explore(0, r.scenario)
			fmt.Printf("file %s\n%q\n", rp.File.Name(), render(rp.File.Format, rp.File.Items, rp.File.Layout))
			if r.drv != nil {
				for i, it := range r.drv.Items {
					fmt.Printf("  delivery %d: %s\n", i, it.(httpRec).W)
				}
				fmt.Printf("  run error: %v\n", r.drv.RunErr)
			}
			if v != nil {
				out.Violate("C07|replay", v.Err.Error(), rp)
			}
		default:
			replayOther(t, rn, out, rp)
		}
		return
	}
	switch spec.Property {
	case "C07":
		runC07(t, spec, out)
	default:
		runOther(t, spec, out)
	}
}
