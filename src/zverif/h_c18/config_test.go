package h_c18

// Tier 2: the same guarantees through the configuration path (config.Decode
// with the plugin hooks and the default registry), with nested plugins.

import (
	"fmt"
	"reflect"

	"github.com/yandex/pandora/core/config"
	"github.com/yandex/pandora/core/plugin"
	"github.com/yandex/pandora/core/plugin/pluginconfig"
	"github.com/yandex/pandora/zverif/hutil"
)

type ZvNested interface{ Val() int }
type nestedImpl struct{ v int }

func (n *nestedImpl) Val() int { return n.v }

type NestedConf struct{ V int }

type ZvOuter interface{ Describe() string }
type outerImpl struct{ c OuterConf }

func (o *outerImpl) Describe() string {
	s := fmt.Sprintf("A=%d B=%s", o.c.A, o.c.B)
	if o.c.Nested != nil {
		s += fmt.Sprintf(" nested=%d", o.c.Nested.Val())
	}
	for _, n := range o.c.List {
		s += fmt.Sprintf(" item=%d", n.Val())
	}
	if o.c.Make != nil {
		n, err := o.c.Make()
		s += fmt.Sprintf(" made=%v/%v", n != nil && n.Val() == 5, err)
	}
	return s
}

type OuterConf struct {
	A      int
	B      string
	Nested ZvNested
	List   []ZvNested
	Make   func() (ZvNested, error)
}

var registered bool

func registerOnce() {
	if registered {
		return
	}
	registered = true
	pluginconfig.AddHooks()
	plugin.Register(reflect.TypeOf((*ZvNested)(nil)).Elem(), "n", func(c NestedConf) ZvNested { return &nestedImpl{c.V} }, func() NestedConf { return NestedConf{V: 1} })
	plugin.Register(reflect.TypeOf((*ZvOuter)(nil)).Elem(), "o", func(c OuterConf) ZvOuter { return &outerImpl{c} }, func() OuterConf { return OuterConf{A: 1, B: "default"} })
	plugin.Register(reflect.TypeOf((*ZvOuter)(nil)).Elem(), "of", func(c OuterConf) func() (ZvOuter, error) {
		return func() (ZvOuter, error) { return &outerImpl{c}, nil }
	}, func() OuterConf { return OuterConf{A: 1, B: "default"} })
}

func runConfigTier(out *hutil.Out) {
	registerOnce()
	confs := []struct {
		name string
		data map[string]any
		want string
	}{
		{"plain", map[string]any{"type": "o", "a": 7}, "A=7 B=default"},
		{"nested", map[string]any{"type": "o", "b": "x", "nested": map[string]any{"type": "n", "v": 3}}, "A=1 B=x nested=3"},
		{"nested-default", map[string]any{"type": "o", "nested": map[string]any{"type": "n"}}, "A=1 B=default nested=1"},
		{"list", map[string]any{"type": "o", "list": []any{map[string]any{"type": "n", "v": 2}, map[string]any{"type": "n"}}}, "A=1 B=default item=2 item=1"},
		{"nested-factory", map[string]any{"type": "o", "make": map[string]any{"type": "n", "v": 5}}, "A=1 B=default made=true/<nil>"},
		{"factory-ctor-nested", map[string]any{"type": "of", "a": 4, "nested": map[string]any{"type": "n", "v": 9}}, "A=4 B=default nested=9"},
		// the key that names the plugin is matched without regard to letter case
		{"plain-Type", map[string]any{"Type": "o", "a": 7}, "A=7 B=default"},
		{"nested-TYPE", map[string]any{"type": "o", "b": "x", "nested": map[string]any{"TYPE": "n", "v": 3}}, "A=1 B=x nested=3"},
		{"list-Type", map[string]any{"TYPE": "o", "list": []any{map[string]any{"Type": "n", "v": 2}, map[string]any{"type": "n"}}}, "A=1 B=default item=2 item=1"},
	}
	for _, c := range confs {
		for _, form := range []string{"plugin", "factory", "factory-err"} {
			out.Cells++
			out.Evals++
			key := "C18|config-path|" + form
			var got []string
			var err error
			data := map[string]any{"f": c.data}
			switch form {
			case "plugin":
				var h struct{ F ZvOuter }
				if err = config.Decode(data, &h); err == nil {
					got = append(got, h.F.Describe())
				}
			case "factory":
				var h struct{ F func() ZvOuter }
				if err = config.Decode(data, &h); err == nil {
					for k := 0; k < 3 && err == nil; k++ {
						func() {
							defer func() {
								if r := recover(); r != nil {
									err = fmt.Errorf("product %d: panic %v", k+1, r)
								}
							}()
							got = append(got, h.F().Describe())
						}()
					}
				}
			case "factory-err":
				var h struct{ F func() (ZvOuter, error) }
				if err = config.Decode(data, &h); err == nil {
					for k := 0; k < 3; k++ {
						p, e := h.F()
						if e != nil {
							err = fmt.Errorf("product %d: %v", k+1, e)
							break
						}
						got = append(got, p.Describe())
					}
				}
			}
			out.States += int64(len(got))
			out.Outcome("config-path", c.name+form)
			if err != nil {
				out.Violate(key+"|SECOND-PRODUCT", fmt.Sprintf("%s as %s: %v (products so far: %v)", c.name, form, err, got), map[string]any{"tier": "config", "case": c.name, "form": form})
				continue
			}
			for k, g := range got {
				if g != c.want {
					out.Violate(key+"|CONFIG", fmt.Sprintf("%s as %s: product %d is %q, registered defaults overlaid by the settings give %q", c.name, form, k+1, g, c.want), map[string]any{"tier": "config", "case": c.name, "form": form})
					break
				}
			}
		}
	}
}
