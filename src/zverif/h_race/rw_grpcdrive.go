package h_race

// Instrumented by vrewrite: provider + gRPC guns driven directly (C20).

import (
	"context"
	"fmt"

	"github.com/yandex/pandora/core"
	"go.uber.org/zap"
)

type gunLike interface {
	Shoot(core.Ammo)
}

type DriveRes struct {
	RunErr  error
	RunDone bool
	Panics  []string
	Shots   int
}

func DriveGuns(ctx context.Context, cancel func(), p core.Provider, guns []gunLike, res *DriveRes, onShot func(inst int, a core.Ammo)) {
	go func() {
		defer func() {
			if r := recover(); r != nil {
				res.Panics = append(res.Panics, fmt.Sprint("provider: ", r))
			}
		}()
		res.RunErr = p.Run(ctx, core.ProviderDeps{Log: zap.NewNop()})
		res.RunDone = true
	}()
	done := 0
	for i := range guns {
		i := i
		go func() {
			defer func() {
				if r := recover(); r != nil {
					res.Panics = append(res.Panics, fmt.Sprintf("instance %d: %v", i, r))
				}
				done++
				if done == len(guns) {
					cancel()
				}
			}()
			for {
				a, ok := p.Acquire()
				if !ok {
					return
				}
				if onShot != nil {
					onShot(i, a)
				}
				guns[i].Shoot(a)
				res.Shots++
				p.Release(a)
			}
		}()
	}
}
