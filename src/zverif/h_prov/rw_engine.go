package h_prov

// Instrumented by vrewrite: a real engine.Engine with one pool around the provider under test
// (C08: instances observe end of ammo and the run ends successfully).

import (
	"context"
	"fmt"

	"github.com/yandex/pandora/core"
	"github.com/yandex/pandora/core/engine"
)

// EngWorld is what one engine execution observes.
type EngWorld struct {
	Items       []any // extracted records in shot order
	ByGun       map[int][]any
	Extract     func(a core.Ammo) any
	ProvRunning bool
	ProvDone    bool
	ProvErr     error
	Reports     int

	Err            error
	Returned       bool
	Waited         bool
	ProvDoneAtWait bool
	Panic          string
}

// EngProv wraps the provider under test and records when its Run is active.
type EngProv struct {
	P core.Provider
	W *EngWorld
}

func (p EngProv) Run(ctx context.Context, deps core.ProviderDeps) error {
	p.W.ProvRunning = true
	err := p.P.Run(ctx, deps)
	p.W.ProvErr, p.W.ProvDone, p.W.ProvRunning = err, true, false
	return err
}
func (p EngProv) Acquire() (core.Ammo, bool) { return p.P.Acquire() }
func (p EngProv) Release(a core.Ammo)        { p.P.Release(a) }

// EngGun looks at every ammo it is given and reports one sample.
type EngGun struct {
	W   *EngWorld
	ID  int
	Agg core.Aggregator
}

func (g *EngGun) Bind(a core.Aggregator, deps core.GunDeps) error {
	g.Agg, g.ID = a, deps.InstanceID
	return nil
}
func (g *EngGun) Shoot(a core.Ammo) {
	rec := g.W.Extract(a)
	g.W.Items = append(g.W.Items, rec)
	g.W.ByGun[g.ID] = append(g.W.ByGun[g.ID], rec)
	g.Agg.Report(nil)
}

// EngAgg counts reports; Run lasts until the engine cancels it.
type EngAgg struct{ W *EngWorld }

func (a EngAgg) Run(ctx context.Context, _ core.AggregatorDeps) error { <-ctx.Done(); return nil }
func (a EngAgg) Report(core.Sample)                                   { a.W.Reports++ }

func StartEngine(ctx context.Context, cancel func(), eng *engine.Engine, w *EngWorld) {
	go func() {
		defer func() {
			if r := recover(); r != nil {
				w.Panic = fmt.Sprint(r)
			}
		}()
		w.Err = eng.Run(ctx)
		w.Returned = true
		eng.Wait()
		w.Waited = true
		w.ProvDoneAtWait = w.ProvDone
		cancel()
	}()
}
