package hutil

import (
	"os"

	"github.com/spf13/afero"
)

// strictFs is the in-memory file system with the one trait of real files that matters to providers
// and that afero.MemMapFs lacks: a file can be closed once. Closing it again fails with os.ErrClosed
// and so does every other operation on a closed file, as on an *os.File.
type strictFs struct{ afero.Fs }

func NewStrictFs() afero.Fs { return strictFs{afero.NewMemMapFs()} }

func (s strictFs) Open(name string) (afero.File, error) {
	f, err := s.Fs.Open(name)
	if err != nil {
		return nil, err
	}
	return &strictFile{File: f}, nil
}

func (s strictFs) OpenFile(name string, flag int, perm os.FileMode) (afero.File, error) {
	f, err := s.Fs.OpenFile(name, flag, perm)
	if err != nil {
		return nil, err
	}
	return &strictFile{File: f}, nil
}

type strictFile struct {
	afero.File
	closed bool
}

func (f *strictFile) Close() error {
	if f.closed {
		return &os.PathError{Op: "close", Path: f.Name(), Err: os.ErrClosed}
	}
	f.closed = true
	return f.File.Close()
}

func (f *strictFile) Read(p []byte) (int, error) {
	if f.closed {
		return 0, &os.PathError{Op: "read", Path: f.Name(), Err: os.ErrClosed}
	}
	return f.File.Read(p)
}

func (f *strictFile) Seek(off int64, whence int) (int64, error) {
	if f.closed {
		return 0, &os.PathError{Op: "seek", Path: f.Name(), Err: os.ErrClosed}
	}
	return f.File.Seek(off, whence)
}
