// Package h_c16 decides C16 by differential bounded-exhaustive enumeration:
// abstract scenario descriptions are rendered once as YAML and once as HCL
// (plus an HCL variant that uses locals and collection functions), both are
// read through the real config.ReadAmmoConfig and both decodeAmmo functions,
// and the results must be identical.
package h_c16

import (
	"os"
	"encoding/json"
	"fmt"
	"reflect"
	"regexp"
	"sort"
	"strings"
	"testing"

	"github.com/hashicorp/hcl/v2"
	"github.com/hashicorp/hcl/v2/hclwrite"
	"github.com/spf13/afero"
	grpcimport "github.com/yandex/pandora/components/grpc/import"
	phttpimport "github.com/yandex/pandora/components/phttp/import"
	"github.com/yandex/pandora/components/providers/scenario/config"
	scgrpc "github.com/yandex/pandora/components/providers/scenario/grpc"
	schttp "github.com/yandex/pandora/components/providers/scenario/http"
	coreimport "github.com/yandex/pandora/core/import"
	"github.com/yandex/pandora/zverif/hutil"
	"github.com/zclconf/go-cty/cty"
	"gopkg.in/yaml.v2"
)

var memfs = hutil.NewStrictFs()

// ---- abstract description

type Source struct {
	Name            string            `json:"name"`
	Type            string            `json:"type"` // file/csv file/json variables
	File            string            `json:"file,omitempty"`
	Fields          []string          `json:"fields,omitempty"`
	IgnoreFirstLine *bool             `json:"ignore_first_line,omitempty"`
	Delimiter       *string           `json:"delimiter,omitempty"`
	Variables       map[string]string `json:"variables,omitempty"`
}

type Post struct {
	Type       string            `json:"type"`
	Mapping    map[string]string `json:"mapping,omitempty"`
	Headers    map[string]string `json:"headers,omitempty"`
	Body       []string          `json:"body,omitempty"`
	StatusCode *int              `json:"status_code,omitempty"`
	SizeVal    *int              `json:"size_val,omitempty"`
	SizeOp     *string           `json:"size_op,omitempty"`
	Payload    []string          `json:"payload,omitempty"` // grpc
}

type Request struct {
	Name      string            `json:"name"`
	Method    string            `json:"method"`
	URI       string            `json:"uri"`
	Headers   map[string]string `json:"headers"` // HCL requires the attribute: empty map when there are none
	Tag       *string           `json:"tag,omitempty"`
	Body      *string           `json:"body,omitempty"`
	Pre       map[string]string `json:"pre,omitempty"`
	Posts     []Post            `json:"posts,omitempty"`
	Templater string            `json:"templater,omitempty"`
}

type Call struct {
	Name     string              `json:"name"`
	Tag      *string             `json:"tag,omitempty"`
	Call     string              `json:"call"`
	Metadata map[string]string   `json:"metadata,omitempty"`
	Payload  string              `json:"payload"`
	Pres     []map[string]string `json:"pres,omitempty"`
	Posts    []Post              `json:"posts,omitempty"`
}

type Scenario struct {
	Name     string   `json:"name"`
	Weight   *int64   `json:"weight,omitempty"`
	MinWait  *int64   `json:"min_waiting_time,omitempty"`
	Requests []string `json:"requests"`
}

type Doc struct {
	Sources   []Source   `json:"sources,omitempty"`
	Requests  []Request  `json:"requests,omitempty"`
	Calls     []Call     `json:"calls,omitempty"`
	Scenarios []Scenario `json:"scenarios"`
}

// ---- YAML rendering (through yaml.v2 Marshal of plain maps: quoting is yaml's job)

type kv = yaml.MapItem

func ymap(items ...kv) yaml.MapSlice { return yaml.MapSlice(items) }

func strMap(m map[string]string) yaml.MapSlice {
	ks := make([]string, 0, len(m))
	for k := range m {
		ks = append(ks, k)
	}
	sort.Strings(ks)
	var out yaml.MapSlice
	for _, k := range ks {
		out = append(out, kv{Key: k, Value: m[k]})
	}
	return out
}

func postYAML(p Post) yaml.MapSlice {
	o := ymap(kv{"type", p.Type})
	if p.Mapping != nil {
		o = append(o, kv{"mapping", strMap(p.Mapping)})
	}
	if p.Headers != nil {
		o = append(o, kv{"headers", strMap(p.Headers)})
	}
	if p.Body != nil {
		o = append(o, kv{"body", p.Body})
	}
	if p.Payload != nil {
		o = append(o, kv{"payload", p.Payload})
	}
	if p.StatusCode != nil {
		o = append(o, kv{"status_code", *p.StatusCode})
	}
	if p.SizeVal != nil || p.SizeOp != nil {
		s := ymap()
		if p.SizeVal != nil {
			s = append(s, kv{"val", *p.SizeVal})
		}
		if p.SizeOp != nil {
			s = append(s, kv{"op", *p.SizeOp})
		}
		o = append(o, kv{"size", s})
	}
	return o
}

// yamlAnchors: render request headers / call metadata as the documented YAML counterpart of
// merge(local.x, {...}): a locals helper block with an anchored map holding a stale value for one key,
// merged with "<<" and overridden by the real entries.
var yamlAnchors bool

func (d Doc) YAMLAnchors() (string, bool) {
	yamlAnchors = true
	defer func() { yamlAnchors = false }()
	text := d.YAML()
	if !strings.Contains(text, "ZVALIAS_") {
		return "", false
	}
	re := regexp.MustCompile(`"?<<"?: ZVALIAS_(\w+)`)
	text = re.ReplaceAllString(text, "<<: *$1")
	re2 := regexp.MustCompile(`(?m)^  (zva\d+):`)
	text = re2.ReplaceAllString(text, "  $1: &$1")
	return text, true
}

func anchored(root *yaml.MapSlice, locals *yaml.MapSlice, n *int, m map[string]string) yaml.MapSlice {
	full := strMap(m)
	if !yamlAnchors || len(m) == 0 {
		return full
	}
	name := fmt.Sprintf("zva%d", *n)
	*n++
	*locals = append(*locals, kv{Key: name, Value: yaml.MapSlice{kv{Key: full[0].Key, Value: "stale"}}})
	return append(yaml.MapSlice{kv{Key: "<<", Value: "ZVALIAS_" + name}}, full...)
}

func (d Doc) YAML() string {
	root := ymap()
	var locals yaml.MapSlice
	nAnchor := 0
	defer func() { _ = locals }()
	var srcs []yaml.MapSlice
	for _, s := range d.Sources {
		o := ymap(kv{"name", s.Name}, kv{"type", s.Type})
		if s.File != "" {
			o = append(o, kv{"file", s.File})
		}
		if s.Fields != nil {
			o = append(o, kv{"fields", s.Fields})
		}
		if s.IgnoreFirstLine != nil {
			o = append(o, kv{"ignore_first_line", *s.IgnoreFirstLine})
		}
		if s.Delimiter != nil {
			o = append(o, kv{"delimiter", *s.Delimiter})
		}
		if s.Variables != nil {
			o = append(o, kv{"variables", strMap(s.Variables)})
		}
		srcs = append(srcs, o)
	}
	if srcs != nil {
		root = append(root, kv{"variable_sources", srcs})
	}
	var reqs []yaml.MapSlice
	for _, r := range d.Requests {
		o := ymap(kv{"name", r.Name}, kv{"method", r.Method}, kv{"uri", r.URI})
		if len(r.Headers) > 0 {
			o = append(o, kv{"headers", anchored(&root, &locals, &nAnchor, r.Headers)})
		}
		if r.Tag != nil {
			o = append(o, kv{"tag", *r.Tag})
		}
		if r.Body != nil {
			o = append(o, kv{"body", *r.Body})
		}
		if r.Pre != nil {
			o = append(o, kv{"preprocessor", ymap(kv{"mapping", strMap(r.Pre)})})
		}
		if r.Posts != nil {
			var ps []yaml.MapSlice
			for _, p := range r.Posts {
				ps = append(ps, postYAML(p))
			}
			o = append(o, kv{"postprocessors", ps})
		}
		if r.Templater != "" {
			o = append(o, kv{"templater", ymap(kv{"type", r.Templater})})
		}
		reqs = append(reqs, o)
	}
	if reqs != nil {
		root = append(root, kv{"requests", reqs})
	}
	var calls []yaml.MapSlice
	for _, c := range d.Calls {
		o := ymap(kv{"name", c.Name}, kv{"call", c.Call}, kv{"payload", c.Payload})
		if c.Tag != nil {
			o = append(o, kv{"tag", *c.Tag})
		}
		if c.Metadata != nil {
			o = append(o, kv{"metadata", anchored(&root, &locals, &nAnchor, c.Metadata)})
		}
		if c.Pres != nil {
			var ps []yaml.MapSlice
			for _, p := range c.Pres {
				ps = append(ps, ymap(kv{"type", "prepare"}, kv{"mapping", strMap(p)}))
			}
			o = append(o, kv{"preprocessors", ps})
		}
		if c.Posts != nil {
			var ps []yaml.MapSlice
			for _, p := range c.Posts {
				ps = append(ps, postYAML(p))
			}
			o = append(o, kv{"postprocessors", ps})
		}
		calls = append(calls, o)
	}
	if calls != nil {
		root = append(root, kv{"calls", calls})
	}
	var scs []yaml.MapSlice
	for _, s := range d.Scenarios {
		o := ymap(kv{"name", s.Name})
		if s.Weight != nil {
			o = append(o, kv{"weight", *s.Weight})
		}
		if s.MinWait != nil {
			o = append(o, kv{"min_waiting_time", *s.MinWait})
		}
		o = append(o, kv{"requests", s.Requests})
		scs = append(scs, o)
	}
	root = append(root, kv{"scenarios", scs})
	if len(locals) > 0 {
		root = append(yaml.MapSlice{kv{Key: "locals", Value: locals}}, root...)
	}
	b, err := yaml.Marshal(root)
	if err != nil {
		panic(err)
	}
	return string(b)
}

// ---- HCL rendering (through hclwrite: escaping of quotes, ${ and %{ is hclwrite's job)

func ctyMap(m map[string]string) cty.Value {
	if len(m) == 0 {
		return cty.EmptyObjectVal
	}
	o := map[string]cty.Value{}
	for k, v := range m {
		o[k] = cty.StringVal(v)
	}
	return cty.ObjectVal(o)
}

func ctyList(l []string) cty.Value {
	if len(l) == 0 {
		return cty.EmptyTupleVal
	}
	var vs []cty.Value
	for _, s := range l {
		vs = append(vs, cty.StringVal(s))
	}
	return cty.TupleVal(vs)
}

func postHCL(b *hclwrite.Body, p Post) {
	blk := b.AppendNewBlock("postprocessor", []string{p.Type}).Body()
	if p.Mapping != nil {
		blk.SetAttributeValue("mapping", ctyMap(p.Mapping))
	}
	if p.Headers != nil {
		blk.SetAttributeValue("headers", ctyMap(p.Headers))
	}
	if p.Body != nil {
		blk.SetAttributeValue("body", ctyList(p.Body))
	}
	if p.Payload != nil {
		blk.SetAttributeValue("payload", ctyList(p.Payload))
	}
	if p.StatusCode != nil {
		blk.SetAttributeValue("status_code", cty.NumberIntVal(int64(*p.StatusCode)))
	}
	if p.SizeVal != nil || p.SizeOp != nil {
		s := blk.AppendNewBlock("size", nil).Body()
		if p.SizeVal != nil {
			s.SetAttributeValue("val", cty.NumberIntVal(int64(*p.SizeVal)))
		}
		if p.SizeOp != nil {
			s.SetAttributeValue("op", cty.StringVal(*p.SizeOp))
		}
	}
}

// HCL renders the document; with locals=true request headers are taken from a
// locals block through merge() and request lists are built with concat().
func (d Doc) HCL(locals bool) string { return d.hcl(locals, false) }

// exprTokens parses an HCL expression given as text.
func exprTokens(expr string) hclwrite.Tokens {
	f, diags := hclwrite.ParseConfig([]byte("x = "+expr+"\n"), "", hcl.InitialPos)
	if diags.HasErrors() {
		panic(diags.Error())
	}
	return f.Body().GetAttribute("x").Expr().BuildTokens(nil)
}

// identity expressions over a list local, one per documented collection function that can express one
func listExpr(i int, name string, n int) string {
	switch i % 7 {
	case 0:
		return "coalescelist([], local." + name + ")"
	case 1:
		return "reverse(reverse(local." + name + "))"
	case 2:
		return "flatten([local." + name + "])"
	case 3:
		return fmt.Sprintf("slice(local.%s, 0, %d)", name, n)
	case 4:
		return "concat([], local." + name + ", [])"
	case 5:
		return "compact(local." + name + ")"
	}
	var el []string
	for k := 0; k < n; k++ {
		el = append(el, fmt.Sprintf("element(local.%s, %d)", name, k))
	}
	return "[" + strings.Join(el, ", ") + "]"
}

func mapExpr(i int, name string, keys []string) string {
	switch i % 3 {
	case 0:
		return "merge({}, local." + name + ")"
	case 1:
		if len(keys) == 0 {
			return "merge(local." + name + ", {})"
		}
		return "zipmap(keys(local." + name + "), values(local." + name + "))"
	}
	var el []string
	for _, k := range keys {
		el = append(el, fmt.Sprintf("%q = lookup(local.%s, %q, \"missing\")", k, name, k))
	}
	return "{" + strings.Join(el, ", ") + "}"
}

var fnMode bool

// fnLiteral: function calls over literal values in a file that has no locals block at all.
var fnLiteral bool

func litList(l []string) string {
	q := make([]string, len(l))
	for i, s := range l {
		q[i] = string(hclwrite.TokensForValue(cty.StringVal(s)).Bytes())
	}
	return "[" + strings.Join(q, ", ") + "]"
}

func litMap(m map[string]string, keys []string) string {
	var el []string
	for _, k := range keys {
		el = append(el, fmt.Sprintf("%q = %s", k, string(hclwrite.TokensForValue(cty.StringVal(m[k])).Bytes())))
	}
	return "{" + strings.Join(el, ", ") + "}"
}

// redefine: the first locals block carries stale values which the second block defines again: the
// latest definition of a local is the one in force.
func (d Doc) hcl(locals, redefine bool) string {
	f := hclwrite.NewEmptyFile()
	b := f.Body()
	if locals {
		lb := b.AppendNewBlock("locals", nil).Body()
		for i, r := range d.Requests {
			if redefine {
				lb.SetAttributeValue(fmt.Sprintf("h%d", i), ctyMap(map[string]string{"Stale": "1"}))
				lb.SetAttributeValue(fmt.Sprintf("hh%d", i), ctyMap(r.Headers))
			} else {
				lb.SetAttributeValue(fmt.Sprintf("h%d", i), ctyMap(r.Headers))
			}
		}
		lb.SetAttributeValue("empty", cty.EmptyObjectVal)
		if redefine {
			for i := range d.Scenarios {
				lb.SetAttributeValue(fmt.Sprintf("r%d", i), ctyList([]string{"stale"}))
			}
		}
		lb2 := b.AppendNewBlock("locals", nil).Body()
		for i, s := range d.Scenarios {
			lb2.SetAttributeValue(fmt.Sprintf("r%d", i), ctyList(s.Requests))
		}
		if redefine {
			// (not the first attribute of its block, and built from a local of the earlier block)
			for i := range d.Requests {
				lb2.SetAttributeRaw(fmt.Sprintf("h%d", i), exprTokens(fmt.Sprintf("merge(local.hh%d, local.empty)", i)))
			}
		}
	}
	for _, s := range d.Sources {
		blk := b.AppendNewBlock("variable_source", []string{s.Name, s.Type}).Body()
		if s.File != "" {
			blk.SetAttributeValue("file", cty.StringVal(s.File))
		}
		if s.Fields != nil {
			blk.SetAttributeValue("fields", ctyList(s.Fields))
		}
		if s.IgnoreFirstLine != nil {
			blk.SetAttributeValue("ignore_first_line", cty.BoolVal(*s.IgnoreFirstLine))
		}
		if s.Delimiter != nil {
			blk.SetAttributeValue("delimiter", cty.StringVal(*s.Delimiter))
		}
		if s.Variables != nil {
			blk.SetAttributeValue("variables", ctyMap(s.Variables))
		}
	}
	for i, r := range d.Requests {
		blk := b.AppendNewBlock("request", []string{r.Name}).Body()
		blk.SetAttributeValue("method", cty.StringVal(r.Method))
		blk.SetAttributeValue("uri", cty.StringVal(r.URI))
		if fnLiteral && len(r.Headers) > 0 {
			var ks []string
			for k := range r.Headers {
				ks = append(ks, k)
			}
			sort.Strings(ks)
			blk.SetAttributeRaw("headers", exprTokens("merge("+litMap(r.Headers, ks[:1])+", "+litMap(r.Headers, ks[1:])+")"))
		} else if locals && fnMode {
			var ks []string
			for k := range r.Headers {
				ks = append(ks, k)
			}
			sort.Strings(ks)
			blk.SetAttributeRaw("headers", exprTokens(mapExpr(i+d.fnSalt(), fmt.Sprintf("h%d", i), ks)))
		} else if locals {
			blk.SetAttributeRaw("headers", hclwrite.TokensForFunctionCall("merge", hclwrite.TokensForTraversal(trav("local", "empty")), hclwrite.TokensForTraversal(trav("local", fmt.Sprintf("h%d", i)))))
		} else {
			blk.SetAttributeValue("headers", ctyMap(r.Headers))
		}
		if r.Tag != nil {
			blk.SetAttributeValue("tag", cty.StringVal(*r.Tag))
		}
		if r.Body != nil {
			blk.SetAttributeValue("body", cty.StringVal(*r.Body))
		}
		if r.Pre != nil {
			blk.AppendNewBlock("preprocessor", nil).Body().SetAttributeValue("mapping", ctyMap(r.Pre))
		}
		for _, p := range r.Posts {
			postHCL(blk, p)
		}
		if r.Templater != "" {
			blk.AppendNewBlock("templater", nil).Body().SetAttributeValue("type", cty.StringVal(r.Templater))
		}
	}
	for _, c := range d.Calls {
		blk := b.AppendNewBlock("call", []string{c.Name}).Body()
		blk.SetAttributeValue("call", cty.StringVal(c.Call))
		blk.SetAttributeValue("payload", cty.StringVal(c.Payload))
		if c.Tag != nil {
			blk.SetAttributeValue("tag", cty.StringVal(*c.Tag))
		}
		if c.Metadata != nil {
			blk.SetAttributeValue("metadata", ctyMap(c.Metadata))
		}
		for _, p := range c.Pres {
			blk.AppendNewBlock("preprocessor", []string{"prepare"}).Body().SetAttributeValue("mapping", ctyMap(p))
		}
		for _, p := range c.Posts {
			postHCL(blk, p)
		}
	}
	for i, s := range d.Scenarios {
		blk := b.AppendNewBlock("scenario", []string{s.Name}).Body()
		if s.Weight != nil {
			blk.SetAttributeValue("weight", cty.NumberIntVal(*s.Weight))
		}
		if s.MinWait != nil {
			blk.SetAttributeValue("min_waiting_time", cty.NumberIntVal(*s.MinWait))
		}
		if fnLiteral && len(s.Requests) > 0 {
			blk.SetAttributeRaw("requests", exprTokens("concat("+litList(s.Requests[:1])+", "+litList(s.Requests[1:])+")"))
		} else if locals && fnMode && len(s.Requests) > 0 {
			blk.SetAttributeRaw("requests", exprTokens(listExpr(i+d.fnSalt(), fmt.Sprintf("r%d", i), len(s.Requests))))
		} else if locals {
			blk.SetAttributeRaw("requests", hclwrite.TokensForFunctionCall("concat", hclwrite.TokensForTraversal(trav("local", fmt.Sprintf("r%d", i))), hclwrite.TokensForValue(cty.EmptyTupleVal)))
		} else {
			blk.SetAttributeValue("requests", ctyList(s.Requests))
		}
	}
	return string(f.Bytes())
}

// fnSalt varies which function is used where from one document to the next.
func (d Doc) fnSalt() int {
	n := len(d.Requests)*3 + len(d.Calls)*5
	for _, s := range d.Scenarios {
		n += len(s.Requests)
	}
	return n + fnTick
}

var fnTick int

func trav(root string, attrs ...string) hcl.Traversal {
	t := hcl.Traversal{hcl.TraverseRoot{Name: root}}
	for _, a := range attrs {
		t = append(t, hcl.TraverseAttr{Name: a})
	}
	return t
}

// ---- comparison: a deep plain dump; nil and empty maps/slices are the same, pointers are followed,
// iterator seeds, functions and locks are not part of the description

func plain(v reflect.Value, depth int, sb *strings.Builder) {
	if depth > 12 || !v.IsValid() {
		sb.WriteString("_")
		return
	}
	pp := v.Type().PkgPath()
	if strings.Contains(pp, "afero") || strings.Contains(pp, "sync") || strings.Contains(pp, "math/rand") || strings.HasSuffix(pp, "/lib/mp") || strings.Contains(pp, "text/template") || strings.Contains(pp, "html/template") {
		sb.WriteString("_")
		return
	}
	switch v.Kind() {
	case reflect.Ptr, reflect.Interface:
		if v.IsNil() {
			sb.WriteString("nil")
			return
		}
		if v.Kind() == reflect.Interface {
			fmt.Fprintf(sb, "<%s>", v.Elem().Type())
		}
		plain(v.Elem(), depth+1, sb)
	case reflect.Struct:
		fmt.Fprintf(sb, "%s{", v.Type().Name())
		for i := 0; i < v.NumField(); i++ {
			f := v.Field(i)
			if v.Type().Name() == "AmmoConfig" && v.Type().Field(i).Name == "Locals" {
				continue // the YAML helper block that holds anchors: not part of the description
			}
			if !f.CanInterface() {
				if f.CanAddr() {
					f = reflect.NewAt(f.Type(), f.Addr().UnsafePointer()).Elem()
				} else {
					continue
				}
			}
			fmt.Fprintf(sb, "%s:", v.Type().Field(i).Name)
			plain(f, depth+1, sb)
			sb.WriteString(" ")
		}
		sb.WriteString("}")
	case reflect.Slice, reflect.Array:
		if v.Len() == 0 {
			sb.WriteString("[]")
			return
		}
		sb.WriteString("[")
		for i := 0; i < v.Len(); i++ {
			plain(v.Index(i), depth+1, sb)
			sb.WriteString(",")
		}
		sb.WriteString("]")
	case reflect.Map:
		if v.Len() == 0 {
			sb.WriteString("map[]")
			return
		}
		ks := v.MapKeys()
		sort.Slice(ks, func(i, j int) bool { return fmt.Sprint(ks[i]) < fmt.Sprint(ks[j]) })
		sb.WriteString("map[")
		for _, k := range ks {
			fmt.Fprintf(sb, "%q:", fmt.Sprint(k))
			plain(v.MapIndex(k), depth+1, sb)
			sb.WriteString(",")
		}
		sb.WriteString("]")
	case reflect.Func, reflect.Chan, reflect.UnsafePointer:
		sb.WriteString("_")
	case reflect.String:
		fmt.Fprintf(sb, "%q", v.String())
	default:
		fmt.Fprintf(sb, "%v", v)
	}
}

func dump(x any) string {
	var sb strings.Builder
	v := reflect.ValueOf(x)
	if v.Kind() == reflect.Ptr && !v.IsNil() {
		// make addressable for unexported fields
		plain(v.Elem(), 0, &sb)
	} else {
		plain(v, 0, &sb)
	}
	return sb.String()
}

type result struct {
	cfgErr  error
	cfg     string
	ammoErr error
	ammo    string
}

func read(name, text string, grpc bool) (r result) {
	defer func() {
		if p := recover(); p != nil {
			r.cfgErr = fmt.Errorf("PANIC: %v", p)
		}
	}()
	_ = afero.WriteFile(memfs, name, []byte(text), 0o644)
	cfg, err := config.ReadAmmoConfig(memfs, name)
	if err != nil {
		r.cfgErr = err
		return
	}
	r.cfg = dump(cfg)
	st, err := config.ExtractVariableStorage(cfg)
	if err != nil {
		r.ammoErr = fmt.Errorf("variable storage: %w", err)
		return
	}
	if grpc {
		a, err := scgrpc.ZvDecodeAmmo(cfg, st)
		r.ammoErr = err
		if err == nil {
			r.ammo = dump(a)
		}
	} else {
		a, err := schttp.ZvDecodeAmmo(cfg, st)
		r.ammoErr = err
		if err == nil {
			r.ammo = dump(a)
		}
	}
	return
}

func firstDiff(a, b string) string {
	i := 0
	for i < len(a) && i < len(b) && a[i] == b[i] {
		i++
	}
	s := i - 60
	if s < 0 {
		s = 0
	}
	e1, e2 := i+80, i+80
	if e1 > len(a) {
		e1 = len(a)
	}
	if e2 > len(b) {
		e2 = len(b)
	}
	return fmt.Sprintf("\n   yaml: ...%s\n   hcl:  ...%s", a[s:e1], b[s:e2])
}

var nameTick int

func compare(d Doc) (key string, err error) {
	grpc := len(d.Calls) > 0
	y := read("/d.yaml", d.YAML(), grpc)
	if y.cfgErr != nil || y.ammoErr != nil {
		// the YAML form itself is not accepted: not a description "expressible in both syntaxes"
		return "HARNESS", fmt.Errorf("HARNESS: the YAML rendering is rejected: %v %v\n%s", y.cfgErr, y.ammoErr, d.YAML())
	}
	if at, ok := d.YAMLAnchors(); ok {
		ya := read("/d.yaml", at, grpc)
		switch {
		case ya.cfgErr != nil || ya.ammoErr != nil:
			return "YAML-REJECTED|anchors", fmt.Errorf("YAML-REJECTED: the YAML form written with a locals block, anchors and merge keys is rejected: %v %v\n%s", ya.cfgErr, ya.ammoErr, at)
		case ya.cfg != y.cfg:
			return "CONFIG-DIFF|yaml-anchors", fmt.Errorf("CONFIG-DIFF: the YAML form with anchors differs from the plain YAML form:%s\n%s", firstDiff(y.cfg, ya.cfg), at)
		case ya.ammo != y.ammo:
			return "AMMO-DIFF|yaml-anchors", fmt.Errorf("AMMO-DIFF: ammo from the YAML form with anchors differs:%s", firstDiff(y.ammo, ya.ammo))
		}
	}
	if nameTick%7 == 3 {
		for _, name := range []string{"/D.YAML", "/d.Yaml", "/d.yml", "/D.YML"} {
			y2 := read(name, d.YAML(), grpc)
			if y2.cfgErr != nil || y2.ammoErr != nil {
				return "YAML-REJECTED|" + name, fmt.Errorf("YAML-REJECTED: the YAML form in a file named %s is rejected (%v %v); named d.yaml it is accepted", name, y2.cfgErr, y2.ammoErr)
			}
			if y2.cfg != y.cfg || y2.ammo != y.ammo {
				return "CONFIG-DIFF|" + name, fmt.Errorf("CONFIG-DIFF: the YAML form read from %s differs from the one read from d.yaml", name)
			}
		}
	}
	for vi, variant := range []string{"plain", "locals", "locals-redefined", "PLAIN.HCL", "functions", "functions-without-locals"} {
		fnMode = vi == 4
		fnLiteral = vi == 5
		if fnMode {
			fnTick++
		}
		text := d.hcl(vi == 1 || vi == 2 || vi == 4, vi == 2)
		fnMode, fnLiteral = false, false
		name := "/d.hcl"
		if vi == 3 {
			// the syntax is chosen by the file extension in any letter case
			if nameTick++; nameTick%7 != 0 {
				continue
			}
			name = "/D.Hcl"
			if nameTick%2 == 0 {
				name = "/D.HCL"
			}
		}
		h := read(name, text, grpc)
		switch {
		case h.cfgErr != nil:
			return "HCL-REJECTED|" + variant, fmt.Errorf("HCL-REJECTED: the HCL form (%s) of a description that YAML accepts is rejected: %v\n%s", variant, h.cfgErr, text)
		case h.ammoErr != nil:
			return "HCL-REJECTED|" + variant, fmt.Errorf("HCL-REJECTED: ammo from the HCL form (%s) fails: %v\n%s", variant, h.ammoErr, text)
		case h.cfg != y.cfg:
			return "CONFIG-DIFF|" + variant, fmt.Errorf("CONFIG-DIFF: internal config from HCL (%s) differs from YAML:%s\nhcl text:\n%s", variant, firstDiff(y.cfg, h.cfg), text)
		case h.ammo != y.ammo:
			return "AMMO-DIFF|" + variant, fmt.Errorf("AMMO-DIFF: ammo from HCL (%s) differs from YAML:%s", variant, firstDiff(y.ammo, h.ammo))
		}
	}
	return "", nil
}

// ---- enumeration

func sp(s string) *string { return &s }
func ip(i int) *int       { return &i }
func i64(i int64) *int64  { return &i }
func bp(b bool) *bool     { return &b }

var special = []string{"plain", "юникод ✓", "a: b", "#x", "null", "123", "true", "it's \"quoted\"", "line1\nline2", "{{.request.r1.postprocessor.token}}", "${x} and %{y}", "  padded  ", "", "~", "[1, 2]", "{a: 1}", "- x", "back\\slash", "tab\there", "1e3", "0x10", "yes", "cr\r\nlf", "${env:ZV_C16_VAR}-x"}

func subsets(n int) [][]bool {
	var out [][]bool
	for m := 0; m < 1<<n; m++ {
		s := make([]bool, n)
		for i := range s {
			s[i] = m&(1<<i) != 0
		}
		out = append(out, s)
	}
	return out
}

func basePosts(sel []bool, variant int) []Post {
	all := []Post{
		{Type: "var/jsonpath", Mapping: map[string]string{"token": "$.auth_key"}},
		{Type: "var/xpath", Mapping: map[string]string{"title": "//title"}},
		{Type: "var/header", Mapping: map[string]string{"ct": "Content-Type|upper", "x": "X-Y|substr(1,3)"}},
		{Type: "assert/response"},
	}
	// assert/response optional fields by variant bits
	a := &all[3]
	if variant&1 != 0 {
		a.Headers = map[string]string{"Content-Type": "json"}
	}
	if variant&2 != 0 {
		a.Body = []string{"key", "two words"}
	}
	if variant&4 != 0 {
		a.StatusCode = ip(200)
	}
	if variant&8 != 0 {
		a.SizeVal, a.SizeOp = ip(40), sp(">")
	}
	var out []Post
	for i, s := range sel {
		if s {
			out = append(out, all[i])
		}
	}
	return out
}

func httpDocs(thorough bool, fn func(name string, d Doc)) {
	scen := []Scenario{{Name: "s1", Requests: []string{"r1"}}}
	// (1) every combination of the optional request fields
	for _, hdr := range []map[string]string{{}, {"Content-Type": "application/json", "X-Tok": "{{.request.r1.preprocessor.t}}"}} {
		for _, tag := range []*string{nil, sp("tag1")} {
			for _, body := range []*string{nil, sp("{\"a\": 1}")} {
				for _, pre := range []map[string]string{nil, {"t": "source.vars.b", "n": "randInt(1,2)"}} {
					for si, sel := range subsets(4) {
						for _, tpl := range []string{"", "text", "html"} {
							variants := []int{0, 15}
							if sel[3] && (thorough || si == 8) {
								variants = []int{0, 1, 2, 3, 4, 5, 6, 7, 8, 9, 10, 11, 12, 13, 14, 15}
							}
							if !sel[3] {
								variants = []int{0}
							}
							for _, v := range variants {
								r := Request{Name: "r1", Method: "POST", URI: "/auth", Headers: hdr, Tag: tag, Body: body, Pre: pre, Posts: basePosts(sel, v), Templater: tpl}
								d := Doc{Sources: []Source{{Name: "vars", Type: "variables", Variables: map[string]string{"b": "s"}}}, Requests: []Request{r}, Scenarios: scen}
								fn("request-options", d)
							}
						}
					}
				}
			}
		}
	}
	// (2) sources: every subset and every optional field
	for _, sel := range subsets(3) {
		for _, opt := range subsets(3) {
			var srcs []Source
			if sel[0] {
				s := Source{Name: "users", Type: "file/csv", File: "/users.csv"}
				if opt[0] {
					s.Fields = []string{"user_id", "name"}
				}
				if opt[1] {
					s.IgnoreFirstLine = bp(true)
				}
				if opt[2] {
					s.Delimiter = sp(";")
				}
				srcs = append(srcs, s)
			}
			if sel[1] {
				srcs = append(srcs, Source{Name: "filter", Type: "file/json", File: "/filter.json"})
			}
			if sel[2] {
				srcs = append(srcs, Source{Name: "vars", Type: "variables", Variables: map[string]string{"b": "s", "c": "123"}})
			}
			if !sel[0] && (opt[0] || opt[1] || opt[2]) {
				continue
			}
			d := Doc{Sources: srcs, Requests: []Request{{Name: "r1", Method: "GET", URI: "/", Headers: map[string]string{}}}, Scenarios: scen}
			fn("sources", d)
		}
	}
	// (2b) several sources of the same kind (two csv files, two json files, two variable sets), in every order with a third kind
	for _, kind := range []string{"file/csv", "file/json", "variables"} {
		mkSrc := func(n int) Source {
			name := fmt.Sprintf("src%d", n)
			switch kind {
			case "file/csv":
				return Source{Name: name, Type: kind, File: "/users.csv", Fields: []string{"user_id", "name"}}
			case "file/json":
				return Source{Name: name, Type: kind, File: "/filter.json"}
			}
			return Source{Name: name, Type: kind, Variables: map[string]string{"b": name}}
		}
		other := Source{Name: "vars0", Type: "variables", Variables: map[string]string{"c": "1"}}
		if kind == "variables" {
			other = Source{Name: "filter0", Type: "file/json", File: "/filter.json"}
		}
		for _, srcs := range [][]Source{{mkSrc(1), mkSrc(2)}, {mkSrc(1), mkSrc(2), mkSrc(3)}, {mkSrc(1), other, mkSrc(2)}, {other, mkSrc(2), mkSrc(1)}} {
			fn("sources", Doc{Sources: srcs, Requests: []Request{{Name: "r1", Method: "GET", URI: "/", Headers: map[string]string{}}}, Scenarios: scen})
		}
	}
	// (3) scenarios: weight / min_waiting_time / request list forms, one or two scenarios, two requests
	reqs := []Request{{Name: "r1", Method: "GET", URI: "/a", Headers: map[string]string{}}, {Name: "r2", Method: "POST", URI: "/b", Headers: map[string]string{"A": "1"}, Body: sp("x")}}
	lists := [][]string{{"r1"}, {"r1(2)", "sleep(100)", "r2"}, {"r2(1,50)", "r1"}}
	for _, w := range []*int64{nil, i64(1), i64(50)} {
		for _, mw := range []*int64{nil, i64(0), i64(10)} {
			for _, l := range lists {
				fn("scenario-options", Doc{Requests: reqs, Scenarios: []Scenario{{Name: "s1", Weight: w, MinWait: mw, Requests: l}}})
				for _, w2 := range []*int64{nil, i64(3)} {
					fn("scenario-options", Doc{Requests: reqs, Scenarios: []Scenario{{Name: "s1", Weight: w, MinWait: mw, Requests: l}, {Name: "s2", Weight: w2, Requests: []string{"r2"}}}})
				}
			}
		}
	}
	// (4) every special string in every string position
	for _, s := range special {
		s := s
		mk := func(mod func(d *Doc)) {
			d := Doc{
				Sources:   []Source{{Name: "vars", Type: "variables", Variables: map[string]string{"b": "s"}}},
				Requests:  []Request{{Name: "r1", Method: "POST", URI: "/auth", Headers: map[string]string{"H": "v"}, Tag: sp("t"), Body: sp("b"), Pre: map[string]string{"t": "source.vars.b"}, Posts: basePosts([]bool{true, false, true, true}, 15)}},
				Scenarios: []Scenario{{Name: "s1", Requests: []string{"r1"}}},
			}
			mod(&d)
			fn("special-strings", d)
		}
		mk(func(d *Doc) { d.Requests[0].URI = "/" + s })
		mk(func(d *Doc) { d.Requests[0].Tag = sp(s) })
		mk(func(d *Doc) { d.Requests[0].Body = sp(s) })
		mk(func(d *Doc) { d.Requests[0].Headers = map[string]string{"H": s} })
		mk(func(d *Doc) { d.Requests[0].Method = s })
		mk(func(d *Doc) { d.Sources[0].Variables = map[string]string{"b": s} })
		mk(func(d *Doc) { d.Requests[0].Posts[2].Headers = map[string]string{"H": s} })
		mk(func(d *Doc) { d.Requests[0].Posts[2].Body = []string{s} })
		mk(func(d *Doc) {
			d.Requests[0].Posts[0].Mapping = map[string]string{"token": "$." + strings.Map(func(r rune) rune {
				if r == '\n' || r == '"' || r == '\'' || r == ' ' || r == '[' || r == '{' {
					return '_'
				}
				return r
			}, s)}
		})
		if s != "" && !strings.ContainsAny(s, "\n") {
			mk(func(d *Doc) {
				d.Requests[0].Name = s
				d.Requests[0].Pre = nil
				d.Scenarios[0].Requests = []string{s}
			})
			mk(func(d *Doc) { d.Scenarios[0].Name = s })
			mk(func(d *Doc) { d.Requests[0].Headers = map[string]string{s: "v"} })
		}
	}
}

// thorough: every pair of special strings in every pair of string positions of one request
func httpDocsPairs(fn func(name string, d Doc)) {
	type setter func(d *Doc, s string)
	pos := []setter{
		func(d *Doc, s string) { d.Requests[0].URI = "/" + s },
		func(d *Doc, s string) { d.Requests[0].Tag = sp(s) },
		func(d *Doc, s string) { d.Requests[0].Body = sp(s) },
		func(d *Doc, s string) { d.Requests[0].Headers = map[string]string{"H": s} },
		func(d *Doc, s string) { d.Sources[0].Variables = map[string]string{"b": s} },
		func(d *Doc, s string) { d.Requests[0].Posts[2].Body = []string{s} },
	}
	for i := range pos {
		for j := i + 1; j < len(pos); j++ {
			for _, s1 := range special {
				for _, s2 := range special {
					d := Doc{
						Sources:   []Source{{Name: "vars", Type: "variables", Variables: map[string]string{"b": "s"}}},
						Requests:  []Request{{Name: "r1", Method: "POST", URI: "/auth", Headers: map[string]string{"H": "v"}, Tag: sp("t"), Body: sp("b"), Pre: map[string]string{"t": "source.vars.b"}, Posts: basePosts([]bool{true, false, true, true}, 15)}},
						Scenarios: []Scenario{{Name: "s1", Requests: []string{"r1"}}},
					}
					pos[i](&d, s1)
					pos[j](&d, s2)
					fn("special-string-pairs", d)
				}
			}
		}
	}
}

func grpcDocs(thorough bool, fn func(name string, d Doc)) {
	scen := []Scenario{{Name: "s1", Requests: []string{"c1"}}}
	for _, tag := range []*string{nil, sp("t1")} {
		for _, md := range []map[string]string{nil, {}, {"k": "v", "auth": "{{.request.c1.preprocessor.x}}"}} {
			for npre := 0; npre <= 2; npre++ {
				for _, posts := range [][]Post{nil, {{Type: "assert/response"}}, {{Type: "assert/response", Payload: []string{"tok", "two words"}}}, {{Type: "assert/response", StatusCode: ip(200)}},
					{{Type: "assert/response", Payload: []string{"a"}, StatusCode: ip(0)}, {Type: "assert/response", StatusCode: ip(404)}}} {
					var pres []map[string]string
					for i := 0; i < npre; i++ {
						pres = append(pres, map[string]string{fmt.Sprintf("x%d", i): "source.vars.b"})
					}
					c := Call{Name: "c1", Tag: tag, Call: "pkg.Svc.M", Metadata: md, Payload: "{\"a\": \"{{.request.c1.preprocessor.x0}}\"}", Pres: pres, Posts: posts}
					fn("call-options", Doc{Sources: []Source{{Name: "vars", Type: "variables", Variables: map[string]string{"b": "s"}}}, Calls: []Call{c}, Scenarios: scen})
				}
			}
		}
	}
	for _, s := range special {
		s := s
		mk := func(mod func(d *Doc)) {
			d := Doc{Calls: []Call{{Name: "c1", Tag: sp("t"), Call: "pkg.Svc.M", Metadata: map[string]string{"k": "v"}, Payload: "{}", Posts: []Post{{Type: "assert/response", Payload: []string{"p"}}}}}, Scenarios: []Scenario{{Name: "s1", Weight: i64(2), MinWait: i64(5), Requests: []string{"c1(2)", "sleep(10)"}}}}
			mod(&d)
			fn("special-strings-grpc", d)
		}
		mk(func(d *Doc) { d.Calls[0].Payload = s })
		mk(func(d *Doc) { d.Calls[0].Tag = sp(s) })
		mk(func(d *Doc) { d.Calls[0].Call = s })
		mk(func(d *Doc) { d.Calls[0].Metadata = map[string]string{"k": s} })
		mk(func(d *Doc) { d.Calls[0].Posts[0].Payload = []string{s} })
	}
}

func classify(err error) string {
	s := err.Error()
	if i := strings.Index(s, ":"); i > 0 && i < 24 {
		return s[:i]
	}
	return "other"
}

func TestWorker(t *testing.T) {
	spec, out := hutil.Load()
	if spec == nil {
		t.Skip("no VERIF_SPEC")
	}
	defer out.Save()
	os.Setenv("ZV_C16_VAR", "resolved")
	coreimport.Import(memfs)
	phttpimport.Import(memfs)
	grpcimport.Import(memfs)
	_ = afero.WriteFile(memfs, "/users.csv", []byte("user_id;name\n1;a\n2;b\n"), 0o644)
	_ = afero.WriteFile(memfs, "/filter.json", []byte(`{"a":[1,2]}`), 0o644)
	if spec.Replay != nil {
		var d Doc
		if err := json.Unmarshal(spec.Replay, &d); err != nil {
			t.Fatal(err)
		}
		_, err := compare(d)
		fmt.Printf("yaml:\n%s\nhcl:\n%s\nhcl with locals:\n%s\nverdict: %v\n", d.YAML(), d.HCL(false), d.HCL(true), err)
		if err != nil {
			out.Violate("C16|replay", err.Error(), d)
		}
		return
	}
	idx := 0
	run := func(name string, d Doc) {
		idx++
		if !spec.Mine(idx) || (spec.Only != "" && !strings.Contains(name, spec.Only)) {
			return
		}
		out.Cells++
		out.Evals += 3
		out.States += 3
		out.Transitions += 3
		key, err := compare(d)
		if key == "HARNESS" {
			// a string that YAML itself cannot carry in that position is outside the domain
			out.Extra["outside_domain_yaml_rejects"]++
			return
		}
		out.Outcome(name, d.YAML())
		out.Extra["docs_"+name]++
		if err != nil {
			out.Violate("C16|"+name+"|"+key, err.Error(), d)
		}
		if idx%797 == 0 {
			out.Sample(map[string]any{"class": name, "yaml": d.YAML(), "hcl": d.HCL(true)})
		}
	}
	httpDocs(spec.Thorough(), run)
	grpcDocs(spec.Thorough(), run)
	if spec.Thorough() {
		httpDocsPairs(run)
	}
}
