// Package h_gun holds the gun-family checks (C09, C10, C19): the real HTTP and
// gRPC guns driven with scripted clients / a recording loopback server.
package h_gun

import (
	"context"
	"io"
	"net/http"

	"github.com/yandex/pandora/core"
	"github.com/yandex/pandora/core/aggregator/netsample"
	"go.uber.org/zap"
	"go.uber.org/zap/zapcore"
)

// scriptClient is a phttp.Client whose answers are scripted.
type scriptClient struct {
	do     func(n int, req *http.Request) (*http.Response, error)
	n      int
	closed int
}

func (c *scriptClient) Do(req *http.Request) (*http.Response, error) {
	c.n++
	return c.do(c.n, req)
}
func (c *scriptClient) CloseIdleConnections() { c.closed++ }

// recAgg records reported samples.
type recAgg struct{ samples []*netsample.Sample }

func (a *recAgg) Run(ctx context.Context, _ core.AggregatorDeps) error { <-ctx.Done(); return nil }
func (a *recAgg) Report(s *netsample.Sample)                            { a.samples = append(a.samples, s) }

func gunDeps(id int) core.GunDeps {
	return core.GunDeps{Ctx: context.Background(), Log: zap.NewNop(), PoolID: "pool", InstanceID: id}
}

// answLogger: the answer log as lib/answlog builds it, writing to nowhere.
func answLogger(on bool) *zap.Logger {
	if !on {
		return zap.NewNop()
	}
	return zap.New(zapcore.NewCore(zapcore.NewConsoleEncoder(zap.NewDevelopmentEncoderConfig()), zapcore.AddSync(io.Discard), zapcore.DebugLevel))
}
