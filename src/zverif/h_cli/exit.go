package h_cli

import "runtime"

// vsExit ends the calling goroutine after the exit event ("the process is gone").
func vsExit() { runtime.Goexit() }
