#!/bin/bash
# Detection demonstration: for each mutant patch, a scratch worktree of /repo's HEAD gets the patch and
# the property's quick check is run against it (VERIF_REPO / VERIF_SCRATCH: /repo and /verif's evidence
# stay untouched); expect exit 1 with a VIOLATION line. usage: selftest.sh [pattern]
cd "$(dirname "$0")"
pat=${1:-}
rc=0
wt=/tmp/selftest_wt.$$
sc=/tmp/selftest_out.$$
cleanup() { git -C /repo worktree remove --force "$wt" >/dev/null 2>&1; rm -rf "$sc"; }
trap cleanup EXIT
git -C /repo worktree add --detach "$wt" HEAD >/dev/null 2>&1 || { echo "SELFTEST: cannot create worktree"; exit 2; }
for p in mutants/*${pat}*.patch; do
  id=$(basename "$p" | cut -d_ -f1)
  git -C "$wt" checkout -q -- . ; git -C "$wt" clean -fdq
  git -C "$wt" apply "$PWD/$p" || { echo "SELFTEST $p: patch does not apply"; rc=1; continue; }
  out=$(VERIF_REPO="$wt" VERIF_SCRATCH="$sc" timeout 1500 ./vcheck run "$id" --tier quick 2>&1); code=$?
  if [ $code -eq 1 ] && echo "$out" | grep -q "^VIOLATION property=$id"; then
    echo "SELFTEST $p: DETECTED ($(echo "$out" | grep -m1 '  key='))"
  else
    echo "SELFTEST $p: MISSED (exit $code)"; echo "$out" | tail -5; rc=1
  fi
done
exit $rc
