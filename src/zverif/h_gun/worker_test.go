package h_gun

import (
	"encoding/json"
	"fmt"
	"testing"

	"github.com/yandex/pandora/zverif/hutil"
)

func TestWorker(t *testing.T) {
	spec, out := hutil.Load()
	if spec == nil {
		t.Skip("no VERIF_SPEC")
	}
	defer out.Save()
	if spec.Replay != nil {
		var probe struct {
			Tier string `json:"tier"`
		}
		_ = json.Unmarshal(spec.Replay, &probe)
		switch probe.Tier {
		case "status", "fail", "tag", "answlog":
			var s shot
			_ = json.Unmarshal(spec.Replay, &s)
			err := runShot(s)
			fmt.Printf("shot %s\nverdict: %v\n", s.Name(), err)
			if err != nil {
				out.Violate("C10|replay", err.Error(), s)
			}
		case "grpc":
			c10grpc(out)
		default:
			replayOther(t, spec, out, probe.Tier)
		}
		return
	}
	switch spec.Property {
	case "C10":
		runC10(spec, out)
	default:
		runOther(t, spec, out)
	}
}
