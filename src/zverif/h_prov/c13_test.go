package h_prov

import (
	"testing"

	"github.com/yandex/pandora/zverif/hutil"
)

func runC13(t *testing.T, spec *hutil.Spec, out *hutil.Out) {
	out.HarnessErr = "C13 not built"
}

func replayC13(t *testing.T, rn *runner, out *hutil.Out, rp replayT) {}
