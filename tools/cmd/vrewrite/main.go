// vrewrite instruments pandora source files for the vs scheduler. It is purely
// syntactic (go/parser + text splicing by byte offsets, no type information):
//
//	imports   sync, go.uber.org/atomic, sync/atomic, os/signal -> zverif shims
//	go f(..)  -> { t := zvs.Spawn(); go func(){ zvs.Start(t); defer zvs.Exit(); ... }() }
//	ch <- v   -> { c := ch; x := v; zvs.Before(c); c <- x; zvs.After() }
//	<-ch      -> zvs.Recv(ch)   /  v, ok := <-ch -> zvs.Recv2(ch)
//	close(ch) -> zvs.Close(ch); time.Sleep -> zvs.Sleep
//	select    -> explorer-prioritised non-blocking attempts + native blocking fallback
//	for ...   -> zvs.Loop() as first statement of the body (spin detection); also at every function entry
//
// Anything it does not understand is an error (exit 2), never silently kept.
//
// usage: vrewrite -out DIR [-strip PREFIX] file.go...   (prints a JSON map orig->rewritten)
package main

import (
	"encoding/json"
	"flag"
	"fmt"
	"go/ast"
	"go/format"
	"go/parser"
	"go/token"
	"os"
	"path/filepath"
	"sort"
	"strings"
)

const vsPath = "github.com/yandex/pandora/zverif/vs"

var importMap = map[string][2]string{
	"sync":               {"sync", "github.com/yandex/pandora/zverif/vsync"},
	"go.uber.org/atomic": {"atomic", "github.com/yandex/pandora/zverif/vatomic"},
	"sync/atomic":        {"atomic", "github.com/yandex/pandora/zverif/vsatomic"},
	"os/signal":          {"signal", "github.com/yandex/pandora/zverif/vsignal"},
}

type edit struct {
	start, end int
	text       string
}

type rewriter struct {
	fset  *token.FileSet
	file  *token.File
	src   []byte
	errs  []string
	stats map[string]int
	uniq  int
}

func (r *rewriter) off(p token.Pos) int { return r.file.Offset(p) }

func (r *rewriter) errorf(p token.Pos, format string, a ...any) {
	r.errs = append(r.errs, fmt.Sprintf("%s: %s", r.fset.Position(p), fmt.Sprintf(format, a...)))
}

// text returns src[from:to) with the edits produced by walking nodes applied.
func (r *rewriter) text(from, to token.Pos, nodes ...ast.Node) string {
	var edits []edit
	for _, n := range nodes {
		if n != nil {
			r.collect(n, &edits)
		}
	}
	return r.apply(r.off(from), r.off(to), edits)
}

func (r *rewriter) apply(from, to int, edits []edit) string {
	sort.SliceStable(edits, func(i, j int) bool { return edits[i].start < edits[j].start })
	var b strings.Builder
	pos := from
	for _, e := range edits {
		if e.start < pos {
			r.errs = append(r.errs, fmt.Sprintf("internal: overlapping edits at offset %d", e.start))
			continue
		}
		b.Write(r.src[pos:e.start])
		b.WriteString(e.text)
		pos = e.end
	}
	b.Write(r.src[pos:to])
	return b.String()
}

func (r *rewriter) node(n ast.Node) string { return r.text(n.Pos(), n.End(), n) }

func isRecv(e ast.Expr) (*ast.UnaryExpr, bool) {
	for {
		p, ok := e.(*ast.ParenExpr)
		if !ok {
			break
		}
		e = p.X
	}
	u, ok := e.(*ast.UnaryExpr)
	if ok && u.Op == token.ARROW {
		return u, true
	}
	return nil, false
}

func isIdent(e ast.Expr, name string) bool {
	id, ok := e.(*ast.Ident)
	return ok && id.Name == name
}

func isSel(e ast.Expr, pkg, name string) bool {
	s, ok := e.(*ast.SelectorExpr)
	return ok && isIdent(s.X, pkg) && s.Sel.Name == name
}

// isDoneCall recognises `x.Done()` - by convention (context.Context) a channel
// that is never sent on, only closed.
func isDoneCall(e ast.Expr) bool {
	c, ok := e.(*ast.CallExpr)
	if !ok || len(c.Args) != 0 {
		return false
	}
	s, ok := c.Fun.(*ast.SelectorExpr)
	return ok && s.Sel.Name == "Done"
}

func isLiteral(e ast.Expr) bool {
	switch v := e.(type) {
	case *ast.BasicLit:
		return true
	case *ast.Ident:
		return v.Name == "nil" || v.Name == "true" || v.Name == "false"
	case *ast.UnaryExpr:
		return v.Op == token.SUB && isLiteral(v.X)
	}
	return false
}

func (r *rewriter) collect(root ast.Node, edits *[]edit) {
	ast.Inspect(root, func(n ast.Node) bool {
		switch m := n.(type) {
		case *ast.GoStmt:
			*edits = append(*edits, edit{r.off(m.Pos()), r.off(m.End()), r.goStmt(m)})
			return false
		case *ast.SendStmt:
			*edits = append(*edits, edit{r.off(m.Pos()), r.off(m.End()), r.send(m)})
			return false
		case *ast.SelectStmt:
			*edits = append(*edits, edit{r.off(m.Pos()), r.off(m.End()), r.sel(m)})
			return false
		case *ast.LabeledStmt:
			if _, ok := m.Stmt.(*ast.SelectStmt); ok {
				r.errorf(m.Pos(), "labelled select is not supported")
			}
		case *ast.AssignStmt:
			if len(m.Lhs) == 2 && len(m.Rhs) == 1 {
				if u, ok := isRecv(m.Rhs[0]); ok {
					r.stats["recv"]++
					*edits = append(*edits, edit{r.off(m.Rhs[0].Pos()), r.off(m.Rhs[0].End()), "zvs.Recv2(" + r.node(u.X) + ")"})
					for _, l := range m.Lhs {
						r.collect(l, edits)
					}
					return false
				}
			}
		case *ast.ValueSpec:
			if len(m.Names) == 2 && len(m.Values) == 1 {
				if u, ok := isRecv(m.Values[0]); ok {
					r.stats["recv"]++
					*edits = append(*edits, edit{r.off(m.Values[0].Pos()), r.off(m.Values[0].End()), "zvs.Recv2(" + r.node(u.X) + ")"})
					return false
				}
			}
		case *ast.UnaryExpr:
			if m.Op == token.ARROW {
				r.stats["recv"]++
				*edits = append(*edits, edit{r.off(m.Pos()), r.off(m.End()), "zvs.Recv(" + r.node(m.X) + ")"})
				return false
			}
		case *ast.CallExpr:
			if isIdent(m.Fun, "close") && len(m.Args) == 1 {
				r.stats["close"]++
				*edits = append(*edits, edit{r.off(m.Fun.Pos()), r.off(m.Fun.End()), "zvs.Close"})
			} else if isSel(m.Fun, "time", "Sleep") {
				r.stats["sleep"]++
				*edits = append(*edits, edit{r.off(m.Fun.Pos()), r.off(m.Fun.End()), "zvs.Sleep"})
			}
		case *ast.ForStmt:
			r.stats["loop"]++
			o := r.off(m.Body.Lbrace) + 1
			*edits = append(*edits, edit{o, o, " zvs.Loop(); "})
		case *ast.RangeStmt:
			r.stats["loop"]++
			o := r.off(m.Body.Lbrace) + 1
			*edits = append(*edits, edit{o, o, " zvs.Loop(); "})
		}
		return true
	})
}

func (r *rewriter) inner(b *ast.BlockStmt) string {
	return r.text(b.Lbrace+1, b.Rbrace, b)
}

func (r *rewriter) goStmt(g *ast.GoStmt) string {
	r.stats["go"]++
	call := g.Call
	var b strings.Builder
	b.WriteString("{ zvT := zvs.Spawn(); ")
	if fl, ok := call.Fun.(*ast.FuncLit); ok {
		b.WriteString("go " + r.node(fl.Type) + " { zvs.Start(zvT); defer zvs.Exit(); ")
		b.WriteString(r.inner(fl.Body))
		b.WriteString("\n}(")
		for i, a := range call.Args {
			if i > 0 {
				b.WriteString(", ")
			}
			b.WriteString(r.node(a))
		}
		if call.Ellipsis.IsValid() {
			b.WriteString("...")
		}
		b.WriteString(") }")
		return b.String()
	}
	b.WriteString("zvF := " + r.node(call.Fun) + "; ")
	var args []string
	for i, a := range call.Args {
		if isLiteral(a) {
			args = append(args, r.node(a))
			continue
		}
		v := fmt.Sprintf("zvA%d", i)
		b.WriteString(v + " := " + r.node(a) + "; ")
		args = append(args, v)
	}
	ell := ""
	if call.Ellipsis.IsValid() {
		ell = "..."
	}
	b.WriteString("go func() { zvs.Start(zvT); defer zvs.Exit(); zvF(" + strings.Join(args, ", ") + ell + ") }() }")
	return b.String()
}

func (r *rewriter) send(s *ast.SendStmt) string {
	r.stats["send"]++
	val := r.node(s.Value)
	if isLiteral(s.Value) {
		return "{ zvC := " + r.node(s.Chan) + "; zvs.Before(zvC); zvC <- " + val + "; zvs.After() }"
	}
	return "{ zvC := " + r.node(s.Chan) + "; zvX := " + val + "; zvs.Before(zvC); zvC <- zvX; zvs.After() }"
}

type clause struct {
	isDefault bool
	isSend    bool
	ch        string
	val       string
	valLit    bool
	doneLike  bool   // channel expression is X.Done(): only ever closed, probing it is harmless
	bind      string // statement binding received values in the body
	body      string
}

func (r *rewriter) sel(s *ast.SelectStmt) string {
	r.stats["select"]++
	var cl []clause
	var def *clause
	for _, st := range s.Body.List {
		cc := st.(*ast.CommClause)
		c := clause{}
		var bodyNodes []ast.Node
		for _, bs := range cc.Body {
			bodyNodes = append(bodyNodes, bs)
		}
		if len(cc.Body) > 0 {
			c.body = r.text(cc.Body[0].Pos(), cc.Body[len(cc.Body)-1].End(), bodyNodes...)
		}
		if cc.Comm == nil {
			c.isDefault = true
			def = &c
			continue
		}
		i := len(cl)
		switch m := cc.Comm.(type) {
		case *ast.SendStmt:
			c.isSend = true
			c.ch = r.node(m.Chan)
			c.val = r.node(m.Value)
			c.valLit = isLiteral(m.Value)
		case *ast.ExprStmt:
			u, ok := isRecv(m.X)
			if !ok {
				r.errorf(m.Pos(), "unsupported select clause")
				return r.node(s)
			}
			c.ch = r.node(u.X)
			c.doneLike = isDoneCall(u.X)
		case *ast.AssignStmt:
			if len(m.Rhs) != 1 {
				r.errorf(m.Pos(), "unsupported select clause")
				return r.node(s)
			}
			u, ok := isRecv(m.Rhs[0])
			if !ok {
				r.errorf(m.Pos(), "unsupported select clause")
				return r.node(s)
			}
			c.ch = r.node(u.X)
			c.doneLike = isDoneCall(u.X)
			var lhs []string
			for _, l := range m.Lhs {
				lhs = append(lhs, r.node(l))
			}
			rhs := fmt.Sprintf("zvR%d", i)
			if len(m.Lhs) == 2 {
				rhs += fmt.Sprintf(", zvOk%d", i)
			}
			c.bind = strings.Join(lhs, ", ") + " " + m.Tok.String() + " " + rhs
		default:
			r.errorf(cc.Pos(), "unsupported select clause")
			return r.node(s)
		}
		cl = append(cl, c)
	}
	n := len(cl)
	if n == 0 {
		if def != nil {
			return "{ " + def.body + " }"
		}
		return "{ zvs.BeforeSleep(); select {} }"
	}
	var b strings.Builder
	b.WriteString("{\n")
	try := make([]string, n)
	for i, c := range cl {
		fmt.Fprintf(&b, "zvC%d := %s\n", i, c.ch)
		if c.isSend {
			v := c.val
			if !c.valLit {
				fmt.Fprintf(&b, "zvS%d := %s\n", i, c.val)
				v = fmt.Sprintf("zvS%d", i)
			}
			try[i] = fmt.Sprintf("case zvC%d <- %s: zvFired = %d", i, v, i)
		} else {
			fmt.Fprintf(&b, "zvR%d, zvOk%d := zvs.Zero(zvC%d), false\n_, _ = zvR%d, zvOk%d\n", i, i, i, i, i)
			try[i] = fmt.Sprintf("case zvR%d, zvOk%d = <-zvC%d: zvFired = %d", i, i, i, i)
		}
	}
	b.WriteString("zvFired := -1\nzvA := zvs.SelectPoint()\n")
	var probes []string
	for i, c := range cl {
		if c.isSend {
			probes = append(probes, fmt.Sprintf("zvs.ProbeSend(zvA, zvC%d)", i))
		} else {
			probes = append(probes, fmt.Sprintf("zvs.ProbeRecv(zvA, zvC%d, %v)", i, c.doneLike))
		}
	}
	fmt.Fprintf(&b, "zvK := zvs.SelectChoose(zvA, %s)\n", strings.Join(probes, ", "))
	if n > 1 {
		b.WriteString("switch zvK {\n")
		for i := range cl {
			fmt.Fprintf(&b, "case %d: select { %s\ndefault: }\n", i, try[i])
		}
		b.WriteString("}\n")
	} else {
		b.WriteString("_ = zvK\n")
	}
	for i := range cl {
		fmt.Fprintf(&b, "if zvFired < 0 { select { %s\ndefault: } }\n", try[i])
	}
	if def != nil {
		fmt.Fprintf(&b, "if zvFired < 0 { zvFired = %d }\n", n)
	} else {
		b.WriteString("if zvFired < 0 { select {\n")
		for i := range cl {
			b.WriteString(try[i] + "\n")
		}
		b.WriteString("} }\n")
	}
	b.WriteString("zvs.AfterSelect(zvFired)\n")
	b.WriteString("switch zvFired {\n")
	last := n - 1
	if def != nil {
		last = n
	}
	for i, c := range cl {
		if i == last {
			b.WriteString("default:\n")
		} else {
			fmt.Fprintf(&b, "case %d:\n", i)
		}
		if c.bind != "" {
			b.WriteString(c.bind + "\n")
		}
		b.WriteString(c.body + "\n")
	}
	if def != nil {
		b.WriteString("default:\n" + def.body + "\n")
	}
	b.WriteString("}\n}")
	return b.String()
}

func rewriteFile(path string) (string, map[string]int, []string) {
	src, err := os.ReadFile(path)
	if err != nil {
		return "", nil, []string{err.Error()}
	}
	fset := token.NewFileSet()
	f, err := parser.ParseFile(fset, path, src, parser.ParseComments)
	if err != nil {
		return "", nil, []string{err.Error()}
	}
	r := &rewriter{fset: fset, file: fset.File(f.Pos()), src: src, stats: map[string]int{}}
	var edits []edit
	// imports
	for _, im := range f.Imports {
		p := strings.Trim(im.Path.Value, "\"`")
		if m, ok := importMap[p]; ok {
			r.stats["import"]++
			txt := "\"" + m[1] + "\""
			if im.Name == nil {
				txt = m[0] + " " + txt
			}
			edits = append(edits, edit{r.off(im.Path.Pos()), r.off(im.Path.End()), txt})
		}
		if im.Name != nil && im.Name.Name == "zvs" {
			return "", nil, []string{path + ": already instrumented"}
		}
	}
	// the zvs import right after the package clause
	o := r.off(f.Name.End())
	edits = append(edits, edit{o, o, "\nimport zvs \"" + vsPath + "\"\n"})
	edits = append(edits, edit{len(src), len(src), "\nvar _ = zvs.Active\n"})
	for _, d := range f.Decls {
		if gd, ok := d.(*ast.GenDecl); ok && gd.Tok == token.IMPORT {
			continue
		}
		if fd, ok := d.(*ast.FuncDecl); ok && fd.Body != nil {
			// function entries count as loop back-edges too: a caller outside the rewritten
			// packages (a third-party parser) may be the one that loops
			r.stats["funcentry"]++
			o := r.off(fd.Body.Lbrace) + 1
			edits = append(edits, edit{o, o, " zvs.Loop(); "})
		}
		r.collect(d, &edits)
	}
	out := r.apply(0, len(src), edits)
	if len(r.errs) > 0 {
		return "", nil, r.errs
	}
	fm, err := format.Source([]byte(out))
	if err != nil {
		return out, nil, []string{path + ": rewritten file does not parse: " + err.Error()}
	}
	return string(fm), r.stats, nil
}

func main() {
	out := flag.String("out", "", "output directory")
	strip := flag.String("strip", "", "path prefix removed when naming outputs")
	flag.Parse()
	if *out == "" || flag.NArg() == 0 {
		fmt.Fprintln(os.Stderr, "usage: vrewrite -out DIR file.go...")
		os.Exit(2)
	}
	if err := os.MkdirAll(*out, 0o755); err != nil {
		fmt.Fprintln(os.Stderr, err)
		os.Exit(2)
	}
	res := map[string]string{}
	total := map[string]int{}
	bad := false
	for _, p := range flag.Args() {
		txt, st, errs := rewriteFile(p)
		if len(errs) > 0 {
			bad = true
			for _, e := range errs {
				fmt.Fprintln(os.Stderr, "vrewrite:", e)
			}
			if txt != "" {
				_ = os.WriteFile(filepath.Join(*out, "FAILED.go.txt"), []byte(txt), 0o644)
			}
			continue
		}
		name := strings.TrimPrefix(p, *strip)
		name = strings.ReplaceAll(strings.Trim(name, "/"), "/", "__")
		dst := filepath.Join(*out, name)
		if err := os.WriteFile(dst, []byte(txt), 0o644); err != nil {
			fmt.Fprintln(os.Stderr, err)
			os.Exit(2)
		}
		res[p] = dst
		for k, v := range st {
			total[k] += v
		}
	}
	if bad {
		os.Exit(2)
	}
	js, _ := json.Marshal(map[string]any{"files": res, "stats": total})
	fmt.Println(string(js))
}
