package h_race

// Scripted environment of the guns. Everything here is stateless or confined
// to one call, so that under -race the harness itself adds neither races nor
// happens-before edges between instances.

import (
	"context"
	"fmt"
	"io"
	"net/http"
	"strings"

	"google.golang.org/grpc"
	"google.golang.org/grpc/codes"
	"google.golang.org/grpc/status"
)

type httpClient struct{}

func (httpClient) CloseIdleConnections() {}

func (httpClient) Do(req *http.Request) (*http.Response, error) {
	if req.Body != nil {
		_, _ = io.Copy(io.Discard, req.Body)
	}
	h := http.Header{"Content-Type": []string{"application/json"}, "X-H": []string{"abcdefghijkl"}}
	body := `{"token":"t","list":[1,2],"html":"<title>T</title>"}`
	if req.URL.Query().Get("u") == "12" {
		// the answer to the second data row fails the step's assertion: the shot ends with a failed step
		body = `{"tok":"t"}`
	}
	if strings.HasSuffix(req.URL.Path, "/x") {
		body = `<html><head><title>T</title></head><body><a href="x">l</a>json</body></html>`
	}
	return &http.Response{StatusCode: 200, Status: "200 OK", Proto: "HTTP/1.1", ProtoMajor: 1, ProtoMinor: 1, Header: h,
		Body: io.NopCloser(strings.NewReader(body)), Request: req, ContentLength: int64(len(body))}, nil
}

// grpcChannel is a grpcdynamic.Channel that answers every unary call.
type grpcChannel struct{}

func (grpcChannel) Invoke(ctx context.Context, method string, args any, reply any, opts ...grpc.CallOption) error {
	if strings.HasSuffix(method, "/Auth") {
		return status.Error(codes.InvalidArgument, "scripted")
	}
	return nil
}

func (grpcChannel) NewStream(ctx context.Context, desc *grpc.StreamDesc, method string, opts ...grpc.CallOption) (grpc.ClientStream, error) {
	return nil, fmt.Errorf("streams are not scripted")
}
