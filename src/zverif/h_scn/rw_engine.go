package h_scn

// Instrumented by vrewrite: runs a real engine.Engine with one pool.

import (
	"context"
	"fmt"

	"github.com/yandex/pandora/core"
	"github.com/yandex/pandora/core/aggregator/netsample"
	"github.com/yandex/pandora/core/engine"
)

// RecAgg records samples; Run lasts until the engine cancels it.
type RecAgg struct{ Samples *[]*netsample.Sample }

func (a RecAgg) Run(ctx context.Context, _ core.AggregatorDeps) error { <-ctx.Done(); return nil }
func (a RecAgg) Report(s *netsample.Sample)                            { *a.Samples = append(*a.Samples, s) }

type EngRes struct {
	Err      error
	Returned bool
	Panic    string
}

func StartEngine(ctx context.Context, cancel func(), eng *engine.Engine, res *EngRes) {
	go func() {
		defer func() {
			if r := recover(); r != nil {
				res.Panic = fmt.Sprint(r)
			}
		}()
		res.Err = eng.Run(ctx)
		res.Returned = true
		eng.Wait()
		cancel()
	}()
}
