package h_c06

import (
	"bytes"
	"context"
	"fmt"
	"go.uber.org/zap"
	"time"

	"github.com/yandex/pandora/core"
)

// memSink is a recording core.DataSink.
type memSink struct {
	buf    bytes.Buffer
	opened int
	closed int
	late   int // writes after Close
}

type memWC struct{ s *memSink }

func (s *memSink) OpenSink() (interface {
	Write([]byte) (int, error)
	Close() error
}, error) {
	s.opened++
	return memWC{s}, nil
}

func (w memWC) Write(p []byte) (int, error) {
	if w.s.closed > 0 {
		w.s.late++
	}
	return w.s.buf.Write(p)
}
func (w memWC) Close() error { w.s.closed++; return nil }

// drive runs the reporters and the end-of-run cancel ("cancel after the last report").
func drive(ctx context.Context, cancel func(), agg core.Aggregator, reporters int, per int, pause time.Duration,
	mk func(r, i int) core.Sample, reported func(r, i int), runDone func(err error)) {
	done := make(chan struct{}, reporters)
	go func() {
		var err error
		func() {
			defer func() {
				if p := recover(); p != nil {
					err = fmt.Errorf("PANIC in aggregator Run: %v", p)
				}
			}()
			err = agg.Run(ctx, core.AggregatorDeps{Log: zap.NewNop()})
		}()
		runDone(err)
	}()
	for r := 0; r < reporters; r++ {
		r := r
		go func() {
			for i := 0; i < per; i++ {
				if pause > 0 && i > 0 {
					time.Sleep(pause)
				}
				s := mk(r, i)
				agg.Report(s)
				reported(r, i)
			}
			done <- struct{}{}
		}()
	}
	go func() {
		for r := 0; r < reporters; r++ {
			<-done
		}
		cancel()
	}()
}
