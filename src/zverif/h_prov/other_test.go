package h_prov

import (
	"context"
	"encoding/json"
	"errors"
	"fmt"
	"reflect"
	"sort"
	"strings"
	"testing"
	"time"

	"github.com/spf13/afero"
	"github.com/yandex/pandora/core"
	"github.com/yandex/pandora/zverif/hutil"
	"github.com/yandex/pandora/zverif/vs"
	"github.com/yandex/pandora/core/engine"
	"github.com/yandex/pandora/core/schedule"
	"github.com/yandex/pandora/lib/monitoring"
	"go.uber.org/zap"
)

// ---------------------------------------------------------------------------
// provider kinds of C08

type kind struct {
	Name    string
	Type    string
	File    string
	Preload bool
	Render  func(e int) []byte
	Key     func(i int) string // what entry i must look like
	Extract func(a core.Ammo) any
	Conf    func(k *kind, limit, passes int) map[string]any
}

func httpConf(k *kind, limit, passes int) map[string]any {
	m := map[string]any{"type": k.Type, "file": k.File, "limit": limit, "passes": passes}
	if k.Preload {
		m["preload"] = true
	}
	return m
}

func httpKey(a core.Ammo) any {
	r := extractHTTP(a).(httpRec)
	return strings.TrimPrefix(r.W.URI, "/e")
}

func nameField(a core.Ammo) any {
	v := reflect.ValueOf(a)
	for v.Kind() == reflect.Ptr && !v.IsNil() {
		v = v.Elem()
	}
	switch v.Kind() {
	case reflect.Struct:
		for _, k := range []string{"Name", "Tag"} {
			if f := v.FieldByName(k); f.IsValid() && f.Kind() == reflect.String {
				return strings.TrimPrefix(f.String(), "e")
			}
		}
	case reflect.Map:
		if m, ok := v.Interface().(map[string]any); ok {
			return strings.TrimPrefix(fmt.Sprint(m["i"]), "e")
		}
	}
	return fmt.Sprintf("%T", a)
}

// idOf finds the id a provider attached to an ammo item.
func idOf(a core.Ammo) (uint64, bool) {
	if x, ok := a.(interface{ ID() uint64 }); ok {
		return x.ID(), true
	}
	v := reflect.ValueOf(a)
	for v.Kind() == reflect.Ptr && !v.IsNil() {
		v = v.Elem()
	}
	if v.Kind() == reflect.Struct {
		for _, n := range []string{"ID", "id"} {
			if f := v.FieldByName(n); f.IsValid() && f.Kind() == reflect.Uint64 {
				return f.Uint(), true
			}
		}
	}
	return 0, false
}

func kinds() []*kind {
	var ks []*kind
	mk := func(name, typ string, render func(e int) []byte) {
		for _, pre := range []bool{false, true} {
			n := name
			if pre {
				n += "+preload"
			}
			ks = append(ks, &kind{Name: n, Type: typ, File: "/ammo", Preload: pre, Render: render, Extract: httpKey, Conf: httpConf})
		}
	}
	mk("uri", "uri", func(e int) []byte {
		var sb strings.Builder
		sb.WriteString("[A: 1]\n")
		for i := 0; i < e; i++ {
			fmt.Fprintf(&sb, "/e%d t%d\n", i, i)
		}
		return []byte(sb.String())
	})
	mk("uripost", "uripost", func(e int) []byte {
		var sb strings.Builder
		for i := 0; i < e; i++ {
			fmt.Fprintf(&sb, "2 /e%d t%d\nb%d\n", i, i, i)
		}
		return []byte(sb.String())
	})
	mk("raw", "raw", func(e int) []byte {
		var sb strings.Builder
		for i := 0; i < e; i++ {
			r := fmt.Sprintf("GET /e%d HTTP/1.1\r\nHost: h\r\n\r\n", i)
			fmt.Fprintf(&sb, "%d t%d\n%s\n", len(r), i, r)
		}
		return []byte(sb.String())
	})
	mk("http/json-lines", "http/json", func(e int) []byte {
		var sb strings.Builder
		for i := 0; i < e; i++ {
			fmt.Fprintf(&sb, `{"tag":"t%d","uri":"/e%d","method":"GET","host":"h"}`+"\n", i, i)
		}
		return []byte(sb.String())
	})
	mk("http/json-array", "http/json", func(e int) []byte {
		var parts []string
		for i := 0; i < e; i++ {
			parts = append(parts, fmt.Sprintf(`{"tag":"t%d","uri":"/e%d","method":"GET","host":"h"}`, i, i))
		}
		return []byte("[" + strings.Join(parts, ",\n") + "]\n")
	})
	// the generic "http" provider: the decoder is chosen by the 'decoder' option
	ks = append(ks, &kind{Name: "http(decoder=uripost)", Type: "http", File: "/ammo", Extract: httpKey, Render: ks[2].Render, Conf: func(k *kind, limit, passes int) map[string]any {
		return map[string]any{"type": "http", "decoder": "uripost", "file": k.File, "limit": limit, "passes": passes}
	}})
	plain := func(k *kind, limit, passes int) map[string]any {
		return map[string]any{"type": k.Type, "file": k.File, "limit": limit, "passes": passes}
	}
	ks = append(ks, &kind{Name: "grpc/json", Type: "grpc/json", File: "/ammo", Extract: nameField, Conf: plain, Render: func(e int) []byte {
		var sb strings.Builder
		for i := 0; i < e; i++ {
			fmt.Fprintf(&sb, `{"tag":"e%d","call":"pkg.Svc.M","payload":{"i":%d}}`+"\n", i, i)
		}
		return []byte(sb.String())
	}})
	ks = append(ks, &kind{Name: "grpc/json+chosencases", Type: "grpc/json", File: "/ammo", Extract: nameField, Render: func(e int) []byte {
		var sb strings.Builder
		sb.WriteString(`{"tag":"skip","call":"pkg.Svc.M","payload":{}}` + "\n")
		for i := 0; i < e; i++ {
			fmt.Fprintf(&sb, `{"tag":"e%d","call":"pkg.Svc.M","payload":{"i":%d}}`+"\n", i, i)
			sb.WriteString(`{"tag":"other","call":"pkg.Svc.M","payload":{}}` + "\n")
		}
		return []byte(sb.String())
	}, Conf: func(k *kind, limit, passes int) map[string]any {
		return map[string]any{"type": "grpc/json", "file": k.File, "limit": limit, "passes": passes, "chosencases": []any{"e0", "e1", "e2"}}
	}})
	// a line beyond bufio.Scanner's default token size, with maxammosize raised accordingly
	ks = append(ks, &kind{Name: "grpc/json+bigline", Type: "grpc/json", File: "/ammo", Extract: nameField, Render: func(e int) []byte {
		var sb strings.Builder
		for i := 0; i < e; i++ {
			pad := ""
			if i == 0 {
				pad = strings.Repeat("p", 70000)
			}
			fmt.Fprintf(&sb, `{"tag":"e%d","call":"pkg.Svc.M","payload":{"i":%d,"pad":"%s"}}`+"\n", i, i, pad)
		}
		return []byte(sb.String())
	}, Conf: func(k *kind, limit, passes int) map[string]any {
		return map[string]any{"type": "grpc/json", "file": k.File, "limit": limit, "passes": passes, "maxammosize": 200000}
	}})
	// http formats with a chosencases list that names every tag of the file: limit counts delivered entries
	for _, base := range []*kind{ks[0], ks[1], ks[6]} {
		b := base
		// the file starts with an entry whose tag is not listed: the chosen entries come after it
		render := func(e int) []byte {
			skip := "/skip skiptag\n"
			if b.Type == "http/json" {
				skip = `{"tag":"skiptag","uri":"/skip","method":"GET","host":"h"}` + "\n"
			}
			return append([]byte(skip), b.Render(e)...)
		}
		ks = append(ks, &kind{Name: b.Name + "+chosencases", Type: b.Type, File: b.File, Preload: b.Preload, Render: render, Extract: b.Extract, Conf: func(k *kind, limit, passes int) map[string]any {
			m := httpConf(k, limit, passes)
			m["chosencases"] = []any{"t0", "t1", "t2", "t3"}
			return m
		}})
	}
	ks = append(ks, &kind{Name: "http/scenario", Type: "http/scenario", File: "/ammo.yaml", Extract: nameField, Conf: plain, Render: func(e int) []byte {
		var sb strings.Builder
		sb.WriteString("requests:\n  - name: r\n    method: GET\n    uri: /\nscenarios:\n")
		for i := 0; i < e; i++ {
			fmt.Fprintf(&sb, "  - name: e%d\n    requests: [r]\n", i)
		}
		return []byte(sb.String())
	}})
	ks = append(ks, &kind{Name: "grpc/scenario", Type: "grpc/scenario", File: "/ammo.yaml", Extract: nameField, Conf: plain, Render: func(e int) []byte {
		var sb strings.Builder
		sb.WriteString("calls:\n  - name: r\n    call: pkg.Svc.M\n    payload: '{}'\nscenarios:\n")
		for i := 0; i < e; i++ {
			fmt.Fprintf(&sb, "  - name: e%d\n    requests: [r]\n", i)
		}
		return []byte(sb.String())
	}})
	ks = append(ks, &kind{Name: "json", Type: "json", File: "/ammo", Extract: nameField, Render: func(e int) []byte {
		var sb strings.Builder
		for i := 0; i < e; i++ {
			fmt.Fprintf(&sb, `{"i":"e%d"}`+"\n", i)
		}
		return []byte(sb.String())
	}, Conf: func(k *kind, limit, passes int) map[string]any {
		return map[string]any{"type": "json", "source": map[string]any{"type": "file", "path": k.File}, "limit": limit, "passes": passes, "ammo-queue-size": 2}
	}})
	// the generic json provider on a source whose data goes on, unparsable, behind the entries: a provider
	// stopped by its limit has no business reading on (on a stream that stays open it would wait for ever)
	ks = append(ks, &kind{Name: "json+tail", Type: "json", File: "/ammo", Extract: nameField, Render: func(e int) []byte {
		var sb strings.Builder
		for i := 0; i < e; i++ {
			fmt.Fprintf(&sb, `{"i":"e%d"}`+"\n", i)
		}
		sb.WriteString("{this is not json\n")
		return []byte(sb.String())
	}, Conf: func(k *kind, limit, passes int) map[string]any {
		return map[string]any{"type": "json", "source": map[string]any{"type": "file", "path": k.File}, "limit": limit, "passes": passes, "ammo-queue-size": 2}
	}})
	return ks
}

type C08Cell struct {
	Kind      string `json:"kind"`
	Limit     int    `json:"limit"`
	Passes    int    `json:"passes"`
	Entries   int    `json:"entries"`
	Consumers int    `json:"consumers"`
	Bound     int    `json:"bound"`
	CancelAny bool   `json:"cancel_any,omitempty"`
	NoMatch   bool   `json:"no_match,omitempty"` // chosencases lists a tag no entry carries: nothing is ever delivered
	Engine    bool   `json:"engine,omitempty"`   // the provider feeds a real engine.Engine pool with Consumers instances
	Tokens    int    `json:"tokens,omitempty"`   // engine cells: tokens of the pool's (shared, once) RPS profile
}

func (c C08Cell) Name() string {
	s := fmt.Sprintf("%s|limit=%d|passes=%d|E=%d|consumers=%d", c.Kind, c.Limit, c.Passes, c.Entries, c.Consumers)
	if c.CancelAny {
		s += "|cancel-any"
	}
	if c.NoMatch {
		s += "|chosencases-match-nothing"
	}
	if c.Engine {
		s += fmt.Sprintf("|engine|tokens=%d", c.Tokens)
	}
	return s
}

func bound(limit, passes, e int) int {
	n := -1
	if limit > 0 {
		n = limit
	}
	if passes > 0 && (n < 0 || passes*e < n) {
		n = passes * e
	}
	return n
}

type c08run struct {
	cell C08Cell
	k    *kind
	drv  *Drv
	ew   *EngWorld
	cerr error
}

// engineScenario: the provider under test inside a real engine pool (mock gun and aggregator).
func (r *c08run) engineScenario(x *vs.X, p core.Provider) func(end, msg string) error {
	c := r.cell
	w := &EngWorld{ByGun: map[int][]any{}, Extract: r.k.Extract}
	r.ew = w
	metrics := engine.Metrics{Request: &monitoring.Counter{}, Response: &monitoring.Counter{}, InstanceStart: &monitoring.Counter{}, InstanceFinish: &monitoring.Counter{}}
	eng := engine.New(zap.NewNop(), metrics, engine.Config{Pools: []engine.InstancePoolConfig{{
		ID:              "p",
		Provider:        EngProv{P: p, W: w},
		Aggregator:      EngAgg{W: w},
		NewGun:          func() (core.Gun, error) { return &EngGun{W: w}, nil },
		NewRPSSchedule:  func() (core.Schedule, error) { return schedule.NewOnce(int64(c.Tokens)), nil },
		StartupSchedule: schedule.NewOnce(int64(c.Consumers)),
		DiscardOverflow: true,
	}}})
	ctx, cancel := context.WithCancel(context.Background())
	x.OnAbort(cancel)
	x.Deadline = time.Now().Add(time.Hour)
	vs.Go("engine", func() { StartEngine(ctx, cancel, eng, w) })
	n := bound(c.Limit, c.Passes, c.Entries)
	return func(end, msg string) error {
		defer cancel()
		if w.Panic != "" {
			return fmt.Errorf("PANIC: engine goroutine panicked: %s", w.Panic)
		}
		if end == vs.EndCap {
			return nil
		}
		if end == vs.EndSpin {
			return fmt.Errorf("SPIN: %s; %d shots, Engine.Run returned=%v, provider Run returned=%v", msg, len(w.Items), w.Returned, w.ProvDone)
		}
		if end != vs.EndComplete || !w.Waited {
			return fmt.Errorf("BLOCKED: execution ended with %s (%s): Engine.Run returned=%v err=%v, Engine.Wait returned=%v, provider Run returned=%v err=%v, %d shots",
				end, msg, w.Returned, w.Err, w.Waited, w.ProvDone, w.ProvErr, len(w.Items))
		}
		if w.Err != nil {
			return fmt.Errorf("RUNERR: Engine.Run ended with %q (provider Run: %v); a pool that runs out of ammo or schedule ends successfully", w.Err, w.ProvErr)
		}
		if !w.ProvDoneAtWait {
			return fmt.Errorf("BLOCKED: Engine.Wait returned while the provider's Run had not returned")
		}
		want := c.Tokens
		if n >= 0 && n < want {
			want = n
		}
		if len(w.Items) != want || w.Reports != want {
			return fmt.Errorf("COUNT: %d shots (%d reports) of a pool with %d tokens over a provider bounded to %d items (limit=%d, passes x entries=%dx%d)", len(w.Items), w.Reports, c.Tokens, n, c.Limit, c.Passes, c.Entries)
		}
		// one instance shoots the items in file order; with several instances up to (instances-1) acquired
		// items may stay unfired (an instance that got an item but no token), so what was shot is a
		// sub-multiset of the first shots+instances-1 items
		avail := map[string]int{}
		for i := 0; i < len(w.Items)+c.Consumers-1 && (n < 0 || i < n); i++ {
			avail[fmt.Sprint(i%c.Entries)]++
		}
		for i, it := range w.Items {
			g := fmt.Sprint(it)
			if c.Consumers == 1 && g != fmt.Sprint(i%c.Entries) {
				return fmt.Errorf("ORDER: shot %v, file order wrapping around starts 0..%d", w.Items, c.Entries-1)
			}
			if avail[g]--; avail[g] < 0 {
				return fmt.Errorf("ORDER: shot %v: item %s was shot more often than the provider can have delivered it by then", w.Items, g)
			}
		}
		return nil
	}
}

func (r *c08run) scenario(x *vs.X) func(end, msg string) error {
	c := r.cell
	_ = afero.WriteFile(memfs, r.k.File, r.k.Render(c.Entries), 0o644)
	conf := r.k.Conf(r.k, c.Limit, c.Passes)
	if c.NoMatch {
		conf["chosencases"] = []any{"nomatch"}
	}
	p, err := newProvider(conf)
	r.cerr, r.drv = err, nil
	if err != nil {
		return func(end, msg string) error { return fmt.Errorf("ERROR: provider construction failed: %v", err) }
	}
	if c.Engine {
		return r.engineScenario(x, p)
	}
	ctx, cancel := context.WithCancel(context.Background())
	x.OnAbort(cancel)
	x.Deadline = time.Now().Add(time.Hour)
	d := &Drv{P: p, Consumers: c.Consumers, Release: true, Extract: r.k.Extract, IDOf: idOf}
	n := bound(c.Limit, c.Passes, c.Entries)
	if n < 0 {
		d.StopAfter = 3*c.Entries + 1
	} else {
		d.StopAfter = n + 2 // only reached by a provider that over-delivers
	}
	d.CancelAny = c.CancelAny
	r.drv = d
	vs.Go("driver", func() { d.Start(ctx, cancel) })
	return func(end, msg string) error {
		defer cancel()
		return r.check(end, msg, n)
	}
}

func cancelLike(err error) bool {
	return err == nil || errors.Is(err, context.Canceled) || strings.Contains(err.Error(), "context canceled")
}

func (r *c08run) check(end, msg string, n int) error {
	d, c := r.drv, r.cell
	if d.RunPanic != "" {
		return fmt.Errorf("PANIC: provider Run panicked: %s", d.RunPanic)
	}
	if d.ConsPanic != "" {
		return fmt.Errorf("PANIC: Acquire panicked: %s", d.ConsPanic)
	}
	if n >= 0 && len(d.Items) > n {
		return fmt.Errorf("COUNT: delivered %d items (and counting), min over the non-zero bounds (limit=%d, passes x entries=%dx%d) is %d", len(d.Items), c.Limit, c.Passes, c.Entries, n)
	}
	if end == vs.EndCap {
		return nil // reported as a cap (exhaustive:false) by the runner, not a verdict
	}
	if end == vs.EndSpin {
		return fmt.Errorf("SPIN: %s; delivered %d, provider Run returned=%v", msg, len(d.Items), d.RunDone)
	}
	if end != vs.EndComplete {
		return fmt.Errorf("BLOCKED: execution ended with %s (%s); delivered %d, provider Run returned=%v err=%v, consumers that saw end of ammo=%d of %d",
			end, msg, len(d.Items), d.RunDone, d.RunErr, d.Falses, c.Consumers)
	}
	if !d.RunDone {
		return fmt.Errorf("BLOCKED: provider Run did not return")
	}
	got := make([]string, len(d.Items))
	for i, it := range d.Items {
		got[i] = fmt.Sprint(it)
	}
	if c.CancelAny {
		// cancelled at an arbitrary point: nobody may stay blocked (checked above), nothing beyond the bounds,
		// what was delivered is a prefix of the file order, the result is nil or the cancellation
		if !cancelLike(d.RunErr) && !c.NoMatch {
			return fmt.Errorf("RUNERR: cancelled provider returned %v", d.RunErr)
		}
		if c.NoMatch && len(got) > 0 {
			return fmt.Errorf("COUNT: delivered %v although no entry carries a chosen tag", got)
		}
	} else if n >= 0 {
		if len(got) != n {
			return fmt.Errorf("COUNT: delivered %d items %v, min over the non-zero bounds (limit=%d, passes x entries=%dx%d) is %d; run error: %v", len(got), got, c.Limit, c.Passes, c.Entries, n, d.RunErr)
		}
		if d.RunErr != nil {
			return fmt.Errorf("RUNERR: provider finished with error %q after reaching its bounds", d.RunErr)
		}
		if d.Falses != c.Consumers {
			return fmt.Errorf("END: %d of %d consumers observed end of ammo", d.Falses, c.Consumers)
		}
	} else {
		if len(got) < d.StopAfter || len(got) > d.StopAfter+c.Consumers-1 {
			return fmt.Errorf("COUNT: unbounded provider delivered %d items before/after the cancel at %d", len(got), d.StopAfter)
		}
		if !cancelLike(d.RunErr) {
			return fmt.Errorf("RUNERR: cancelled provider returned %v", d.RunErr)
		}
	}
	if d.AfterFalse && !c.CancelAny {
		return fmt.Errorf("END: Acquire returned ok=true after it had returned ok=false")
	}
	seenID := map[uint64]bool{}
	for _, id := range d.IDs {
		if seenID[id] {
			return fmt.Errorf("IDS: ammo id %d was attached to two delivered items (ids %v)", id, d.IDs)
		}
		seenID[id] = true
	}
	if !strings.HasPrefix(r.k.Name, "json") && len(d.IDs) != len(d.Items) {
		return fmt.Errorf("IDS: %d of %d delivered items carry an id", len(d.IDs), len(d.Items))
	}
	want := make([]string, len(got))
	for i := range want {
		want[i] = fmt.Sprint(i % c.Entries)
	}
	if c.Consumers > 1 {
		g2 := append([]string(nil), got...)
		sort.Strings(g2)
		w2 := append([]string(nil), want...)
		sort.Strings(w2)
		got, want = g2, w2
	}
	for i := range want {
		if got[i] != want[i] {
			return fmt.Errorf("ORDER: delivered %v, file order wrapping around gives %v", got, want)
		}
	}
	return nil
}

func c08cells(thorough bool) []C08Cell {
	var out []C08Cell
	for _, k := range kinds() {
		for _, limit := range []int{0, 1, 2, 3, 5} {
			for _, passes := range []int{0, 1, 2, 3} {
				for e := 1; e <= 3; e++ {
					for cons := 1; cons <= 2; cons++ {
						if cons == 2 && !thorough && (limit == 2 || limit == 5 || passes == 3 || e == 3) {
							continue // quick: two-consumer schedules over the sub-matrix limit {0,1,3} x passes {0,1,2} x E {1,2}
						}
						if k.Name == "json+tail" && !(limit == e && passes == 0) {
							continue // only runs that end at the limit, right in front of the unparsable tail
						}
						unb := limit == 0 && passes == 0
						buffered := strings.HasPrefix(k.Name, "grpc/") || strings.HasSuffix(k.Name, "/scenario")
						if cons == 2 && !thorough && unb && e > 1 {
							continue
						}
						b := 0
						if cons == 2 {
							b = 1
							if thorough && !unb {
								b = 2
							}
							if unb && buffered {
								b = 0 // the provider runs 100+ items ahead into its buffered sink: select choices only
							}
						}
						out = append(out, C08Cell{Kind: k.Name, Limit: limit, Passes: passes, Entries: e, Consumers: cons, Bound: b})
						if cons == 1 && e <= 2 && passes == 0 && (limit == 0 || limit == 3) && (k.Type == "uri" || k.Type == "uripost" || k.Type == "raw" || k.Type == "http/json" || k.Type == "http" || k.Name == "grpc/json") {
						// a filter that matches nothing and no pass bound: the provider reads the file over and over
						// (it polls, see vs.PollEvery) until the run is cancelled - at any point - and then it must return
						out = append(out, C08Cell{Kind: k.Name, Limit: limit, Passes: passes, Entries: e, Consumers: cons, Bound: 1, CancelAny: true, NoMatch: true})
					}
					if cons == 1 && e == 2 && (limit == 0 || limit == 3) && passes <= 2 && !(unb && buffered) {
							// a canceller thread: with one deviation the cancel lands at every scheduling point of the run
							out = append(out, C08Cell{Kind: k.Name, Limit: limit, Passes: passes, Entries: e, Consumers: cons, Bound: 1, CancelAny: true})
						}
					}
				}
			}
		}
	}
	// engine cells: the provider inside a real engine pool - more tokens than ammo (the instances observe the
	// end of ammo), fewer tokens than ammo (the pool cancels the provider when its instances are done)
	for _, k := range kinds() {
		if k.Name == "json+tail" {
			continue
		}
		if !thorough && (strings.Contains(k.Name, "+chosencases") || strings.Contains(k.Name, "+bigline") || strings.Contains(k.Name, "(decoder=")) {
			continue // quick: the plain and the preloading variant of every provider family
		}
		for _, lp := range [][2]int{{0, 1}, {1, 0}, {2, 3}, {3, 1}, {0, 2}, {0, 0}} {
			for e := 1; e <= 2; e++ {
				if !thorough && (lp == [2]int{2, 3} || lp == [2]int{0, 2} || (e == 1 && lp != [2]int{0, 1})) {
					continue
				}
				n := bound(lp[0], lp[1], e)
				for inst := 1; inst <= 2; inst++ {
					if inst == 2 && !thorough && (e == 1 || !(lp == [2]int{0, 1} || lp == [2]int{3, 1}) || !(k.Name == "uri" || k.Name == "grpc/json" || k.Name == "http/scenario")) {
						continue // quick: two instances for three provider families and two bounded settings
					}
					toks := []int{1, n + 2}
					if n < 0 {
						toks = []int{3}
					}
					for _, t := range toks {
						b := 0 // one instance, and two instances in quick: every select ready-case choice; thorough: + 1 preemption
						if inst == 2 && thorough {
							b = 1
						}
						out = append(out, C08Cell{Kind: k.Name, Limit: lp[0], Passes: lp[1], Entries: e, Consumers: inst, Bound: b, Engine: true, Tokens: t})
					}
				}
			}
		}
	}
	// providers that run ahead into a buffered sink (100 items): bounds beyond the buffer, so that the
	// provider meets a full sink and the last items go through its blocking path
	for _, k := range kinds() {
		if !(strings.HasPrefix(k.Name, "grpc/") || strings.HasSuffix(k.Name, "/scenario")) {
			continue
		}
		out = append(out,
			C08Cell{Kind: k.Name, Limit: 103, Passes: 0, Entries: 2, Consumers: 1, Bound: 0},
			C08Cell{Kind: k.Name, Limit: 0, Passes: 51, Entries: 2, Consumers: 1, Bound: 0},
			C08Cell{Kind: k.Name, Limit: 101, Passes: 60, Entries: 2, Consumers: 2, Bound: 0})
	}
	return out
}

func head(c []int, n int) []int {
	if len(c) > n {
		return c[:n]
	}
	return c
}

func kindByName(n string) *kind {
	for _, k := range kinds() {
		if k.Name == n {
			return k
		}
	}
	return nil
}

func runC08(t *testing.T, spec *hutil.Spec, out *hutil.Out) {
	rn := newRunner(t, out)
	all := c08cells(spec.Thorough())
	for ci, c := range all {
		if !spec.Mine(ci) || (spec.Only != "" && !strings.Contains(c.Name(), spec.Only)) {
			continue
		}
		if out.OverBudget() {
			return
		}
		if !out.Begin(c.Name()) {
			continue
		}
		r := &c08run{cell: c, k: kindByName(c.Kind)}
		rn.e.OnExec = func(res *vs.Result) {
			if r.drv != nil {
				out.Outcome(c.Name(), fmt.Sprintf("%v|%v|%v", r.drv.Items, r.drv.RunErr, r.drv.ByConsumer))
			}
			if c.Engine && r.ew != nil {
				out.Outcome(c.Name(), fmt.Sprintf("%v|%v|%v", r.ew.Items, r.ew.Err, r.ew.ByGun))
			}
		}
		v, complete := rn.explore(c.Bound, r.scenario)
		rn.e.OnExec = nil
		out.Cells++
		if rn.e.HarnessErr {
			out.HarnessErr = c.Name() + ": " + v.Err.Error()
			return
		}
		if !complete {
			out.Cap("cell %s: %s", c.Name(), rn.e.CapHit)
		}
		if v != nil {
			bk := "bounded"
			if bound(c.Limit, c.Passes, c.Entries) < 0 {
				bk = "unbounded"
			}
			out.Violate("C08|"+c.Kind+"|"+classify(v.Err)+"|"+bk, c.Name()+"\n"+v.Err.Error()+fmt.Sprintf("\nchoices=%v", head(v.Choices, 60)),
				map[string]any{"mode": "C08", "cell": c, "choices": v.Choices})
		}
		if ci%211 == 0 {
			out.Sample(map[string]any{"cell": c.Name(), "file": string(r.k.Render(c.Entries))})
		}
	}
}

// C10 (ids): the ids attached to the items delivered to 2-3 concurrently acquiring consumers are
// pairwise distinct in every schedule. The cells are provider runs as in C08; only the IDS oracle
// decides here (every other oracle of these runs belongs to C08).
func runC10ids(t *testing.T, spec *hutil.Spec, out *hutil.Out) {
	rn := newRunner(t, out)
	rn.e.StopOnViol = false
	var all []C08Cell
	for _, k := range kinds() {
		if strings.HasPrefix(k.Name, "json") {
			continue // the generic json provider attaches no ids
		}
		th := spec.Thorough()
		b := func(quick, thorough int) int {
			if th {
				return thorough
			}
			return quick
		}
		all = append(all,
			C08Cell{Kind: k.Name, Limit: 2, Entries: 1, Consumers: 2, Bound: 2},
			C08Cell{Kind: k.Name, Limit: 2, Entries: 2, Consumers: 2, Bound: b(1, 2)},
			C08Cell{Kind: k.Name, Limit: 3, Entries: 2, Consumers: 2, Bound: b(1, 2)},
			C08Cell{Kind: k.Name, Limit: 3, Entries: 2, Consumers: 3, Bound: b(1, 2)},
			C08Cell{Kind: k.Name, Passes: 2, Entries: 2, Consumers: 2, Bound: b(1, 2)})
		if th {
			all = append(all,
				C08Cell{Kind: k.Name, Limit: 4, Entries: 1, Consumers: 2, Bound: 2},
				C08Cell{Kind: k.Name, Limit: 4, Entries: 2, Consumers: 3, Bound: 1})
		}
	}
	for ci, c := range all {
		if !spec.Mine(ci) || (spec.Only != "" && !strings.Contains(c.Name(), spec.Only)) {
			continue
		}
		if out.OverBudget() {
			return
		}
		if !spec.Thorough() && c.Bound > 1 && strings.HasSuffix(c.Kind, "/scenario") {
			c.Bound = 1
		}
		if !out.Begin(c.Name()) {
			continue
		}
		r := &c08run{cell: c, k: kindByName(c.Kind)}
		var idv *vs.Result
		rn.e.OnExec = func(res *vs.Result) {
			if r.drv != nil {
				out.Outcome(c.Name(), fmt.Sprintf("%v", r.drv.IDs))
			}
			if res.Err != nil && idv == nil && classify(res.Err) == "IDS" {
				idv = res
			}
		}
		v, complete := rn.explore(c.Bound, r.scenario)
		rn.e.OnExec = nil
		out.Cells++
		if rn.e.HarnessErr {
			out.HarnessErr = c.Name() + ": " + v.Err.Error()
			return
		}
		if !complete {
			out.Cap("cell %s: %s", c.Name(), rn.e.CapHit)
		}
		if idv != nil {
			out.Violate("C10|IDS|"+c.Kind, c.Name()+"\n"+idv.Err.Error()+fmt.Sprintf("\nchoices=%v", head(idv.Choices, 60)),
				map[string]any{"mode": "C10ids", "ids_cell": true, "cell": c, "choices": idv.Choices})
		}
		if ci%17 == 0 {
			out.Sample(map[string]any{"cell": c.Name(), "ids_of_last_execution": fmt.Sprint(r.drv.IDs)})
		}
	}
}

// ---------------------------------------------------------------------------
// C14: preload on/off differential + chosencases model

type C14Cell struct {
	File   File     `json:"file"`
	Limit  int      `json:"limit"`
	Passes int      `json:"passes"`
	Chosen []string `json:"chosen"`
	// ChosenEmpty: the key is given with an empty list (chosencases: []) - no filter, like an absent key
	ChosenEmpty bool `json:"chosen_empty,omitempty"`
}

func (c C14Cell) Name() string {
	if c.ChosenEmpty {
		return fmt.Sprintf("%s|limit=%d|passes=%d|chosen=[](explicit)", c.File.Name(), c.Limit, c.Passes)
	}
	return fmt.Sprintf("%s|limit=%d|passes=%d|chosen=%v", c.File.Name(), c.Limit, c.Passes, c.Chosen)
}

type c14run struct {
	cell     C14Cell
	preload  bool
	deferred bool
	drv      *Drv
	cerr     error
	stop     int
}

func (r *c14run) scenario(x *vs.X) func(end, msg string) error {
	c := r.cell
	data := render(c.File.Format, c.File.Items, c.File.Layout)
	_ = afero.WriteFile(memfs, "/ammo", data, 0o644)
	conf := map[string]any{"type": formatType[c.File.Format], "file": "/ammo", "limit": c.Limit, "passes": c.Passes, "preload": r.preload}
	if c.ChosenEmpty {
		conf["chosencases"] = []any{}
	}
	if len(c.Chosen) > 0 {
		l := make([]any, len(c.Chosen))
		for i, s := range c.Chosen {
			l[i] = s
		}
		conf["chosencases"] = l
	}
	p, err := newProvider(conf)
	r.cerr, r.drv = err, nil
	if err != nil {
		return func(end, msg string) error { return nil }
	}
	ctx, cancel := context.WithCancel(context.Background())
	x.OnAbort(cancel)
	x.Deadline = time.Now().Add(time.Hour)
	d := &Drv{P: p, Consumers: 1, Release: true, Extract: extractHTTP, StopAfter: r.stop, Deferred: r.deferred}
	r.drv = d
	vs.Go("driver", func() { d.Start(ctx, cancel) })
	return func(end, msg string) error {
		defer cancel()
		d.Resolve()
		if d.RunPanic != "" || d.ConsPanic != "" {
			return fmt.Errorf("PANIC: %s %s", d.RunPanic, d.ConsPanic)
		}
		if end == vs.EndCap {
			return nil
		}
		if end != vs.EndComplete {
			return fmt.Errorf("HANG: preload=%v: execution ended with %s (%s), delivered %d", r.preload, end, msg, len(d.Items))
		}
		return nil
	}
}

func chosenFilter(ws []Want, chosen []string) []Want {
	if len(chosen) == 0 {
		return ws
	}
	var out []Want
	for _, w := range ws {
		for _, c := range chosen {
			if w.Tag == c {
				out = append(out, w)
				break
			}
		}
	}
	return out
}

func errClass(err error) string {
	if err == nil {
		return "nil"
	}
	if cancelLike(err) {
		return "cancelled"
	}
	return "error"
}

// runC14Cell returns a violation (or nil).
func runC14Cell(rn *runner, c C14Cell) (key string, verr error) {
	filtered := chosenFilter(model(c.File.Format, c.File.Items), c.Chosen)
	e := len(filtered)
	n := bound(c.Limit, c.Passes, e)
	if c.Limit == 0 && c.Passes > 0 {
		n = c.Passes * e
	}
	stop := 0
	if n < 0 {
		stop = 3*e + 1
	}
	var runs [4]*c14run
	for i, pre := range []bool{false, true, false, true} {
		// runs 2 and 3: every delivered ammo is kept and looked at only after the run (all in flight at once)
		r := &c14run{cell: c, preload: pre, stop: stop, deferred: i >= 2}
		v, _ := rn.explore(0, r.scenario)
		if rn.e.HarnessErr {
			return "HARNESS", v.Err
		}
		if v != nil {
			return classify(v.Err), v.Err
		}
		runs[i] = r
	}
	seq := func(r *c14run) []Want {
		if r.drv == nil {
			return nil
		}
		out := make([]Want, len(r.drv.Items))
		for i, it := range r.drv.Items {
			out[i] = it.(httpRec).W
		}
		return out
	}
	end := func(r *c14run) string {
		if r.drv == nil {
			return "construction-error"
		}
		return errClass(r.drv.RunErr)
	}
	detail := func(r *c14run) string {
		if r.drv == nil {
			return fmt.Sprint(r.cerr)
		}
		return fmt.Sprint(r.drv.RunErr)
	}
	a := seq(runs[0])
	// model (only where something can be delivered)
	if e > 0 {
		total := n
		if n < 0 {
			total = stop
		}
		for ri, got := range [][]Want{a, seq(runs[1])} {
			if len(got) != total {
				return "COUNT", fmt.Errorf("COUNT: preload=%v delivered %d entries, model (filter by tag, then limit over delivered entries) gives %d; run ended: %s\n got %v", ri == 1, len(got), total, detail(runs[ri]), got)
			}
			for i := range got {
				if got[i] != filtered[i%e] {
					return "SEQ", fmt.Errorf("SEQ: preload=%v delivery %d is %s, model gives %s", ri == 1, i, got[i], filtered[i%e])
				}
			}
			if n >= 0 && end(runs[ri]) != "nil" {
				return "RUNERR", fmt.Errorf("RUNERR: preload=%v run ended with %s after reaching its bounds", ri == 1, detail(runs[ri]))
			}
		}
	}
	// differential: preload on vs off, items looked at immediately vs all in flight
	names := []string{"preload off", "preload on", "preload off, all items in flight", "preload on, all items in flight"}
	for ri := 1; ri < 4; ri++ {
		b := seq(runs[ri])
		if len(a) != len(b) {
			return "DIFF-SEQ", fmt.Errorf("DIFF-SEQ: %s delivered %d entries, %s %d\n %v\n %v", names[0], len(a), names[ri], len(b), a, b)
		}
		for i := range a {
			if a[i] != b[i] {
				return "DIFF-SEQ", fmt.Errorf("DIFF-SEQ: delivery %d differs: %s: %s; %s: %s", i, names[0], a[i], names[ri], b[i])
			}
		}
		if end(runs[0]) != end(runs[ri]) {
			kind := "DIFF-END"
			if e == 0 {
				kind = "DIFF-END-NOMATCH"
			}
			return kind, fmt.Errorf("%s: the run ends differently: %s -> %s (%s), %s -> %s (%s); %d entries match the filter", kind, names[0], end(runs[0]), detail(runs[0]), names[ri], end(runs[ri]), detail(runs[ri]), e)
		}
	}
	return "", nil
}

func c14files(format string, thorough bool, fn func(File)) {
	red := itemAlphabet(format, true)
	var ls []Layout
	if format == "jsonline" {
		ls = []Layout{{FinalNL: true, JSON: "lines"}, {FinalNL: false, Blank: true, Surround: true, JSON: "pretty"}, {FinalNL: true, JSON: "array"}, {FinalNL: false, Blank: true, JSON: "arraypretty"}, {FinalNL: true, JSON: "lines-omit"}}
	} else {
		ls = []Layout{{FinalNL: true}, {FinalNL: false, Blank: true, Surround: true}}
	}
	if thorough {
		ls = layouts(format)
	}
	emit := func(items []Item) {
		if entries(items) == 0 {
			return
		}
		for _, l := range ls {
			fn(File{Format: format, Items: items, Layout: l})
		}
	}
	for _, a := range red {
		emit([]Item{a})
		for _, b := range red {
			emit([]Item{a, b})
			for _, c := range red {
				emit([]Item{a, b, c})
			}
		}
	}
}

func runC14(t *testing.T, spec *hutil.Spec, out *hutil.Out) {
	rn := newRunner(t, out)
	// the empty tag is a tag as well: [""] lists exactly the untagged entries
	chosens := [][]string{nil, {"t"}, {"t", "two words"}, {"nomatch"}, {""}}
	if spec.Thorough() {
		chosens = append(chosens, []string{"", "t"})
	}
	idx := 0
	for _, format := range []string{"uri", "uripost", "raw", "jsonline"} {
		var mine []File
		c14files(format, spec.Thorough(), func(f File) {
			idx++
			if spec.Mine(idx) {
				mine = append(mine, f)
			}
		})
		for fi, f := range mine {
			for _, limit := range []int{0, 1, 2, 3} {
				for _, passes := range []int{0, 1, 2} {
					for chi := 0; chi <= len(chosens); chi++ {
						var ch []string
						if chi < len(chosens) {
							ch = chosens[chi]
						}
						c := C14Cell{File: f, Limit: limit, Passes: passes, Chosen: ch, ChosenEmpty: chi == len(chosens)}
						if c.ChosenEmpty && fi%3 != 0 {
							continue // the explicit empty list on every third file
						}
						if spec.Only != "" && !strings.Contains(c.Name(), spec.Only) {
							continue
						}
						if passes == 0 && len(chosenFilter(model(f.Format, f.Items), ch)) == 0 {
							continue // nothing to deliver and no pass bound: the run has no end to compare
						}
						if out.OverBudget() {
							return
						}
						out.Cells++
						out.Progress(c.Name())
						key, err := runC14Cell(rn, c)
						if key == "HARNESS" {
							out.HarnessErr = c.Name() + ": " + err.Error()
							return
						}
						if err != nil {
							chk := "nofilter"
							if len(ch) > 0 {
								chk = "chosencases"
							}
							out.Violate("C14|"+format+"|"+key+"|"+chk, c.Name()+"\n"+err.Error()+fmt.Sprintf("\nfile: %q", render(f.Format, f.Items, f.Layout)),
								map[string]any{"mode": "C14", "cell": c})
						}
						out.Outcome("c14", c.Name())
					}
				}
			}
			if fi%499 == 0 {
				out.Sample(map[string]any{"format": format, "file_bytes": string(render(f.Format, f.Items, f.Layout)), "cells_per_file": "limit{0..3} x passes{0..2} x chosencases{unset,[t],[t,two words],[nomatch],[\"\"]} x preload{off,on}"})
			}
		}
	}
}

// ---------------------------------------------------------------------------

func runOther(t *testing.T, spec *hutil.Spec, out *hutil.Out) {
	switch spec.Property {
	case "C08":
		runC08(t, spec, out)
	case "C14":
		runC14(t, spec, out)
	case "C13":
		runC13(t, spec, out)
	case "C10":
		runC10ids(t, spec, out)
	default:
		out.HarnessErr = "unknown property " + spec.Property
	}
}

func replayOther(t *testing.T, rn *runner, out *hutil.Out, rp replayT) {
	switch rp.Mode {
	case "C08", "C10ids":
		var w struct {
			Cell    C08Cell `json:"cell"`
			Choices []int   `json:"choices"`
		}
		_ = json.Unmarshal(rp.Raw, &w)
		r := &c08run{cell: w.Cell, k: kindByName(w.Cell.Kind)}
		rn.e.Scenario = r.scenario
		rn.e.Opts.Bound = w.Cell.Bound
		res := rn.e.RunOne(w.Choices, -1, nil)
		fmt.Printf("cell %s\nend=%s %s\n", w.Cell.Name(), res.End, res.Msg)
		if r.drv != nil {
			fmt.Printf("delivered=%v by consumer=%v runErr=%v runDone=%v falses=%d\n", r.drv.Items, r.drv.ByConsumer, r.drv.RunErr, r.drv.RunDone, r.drv.Falses)
		}
		if res.Err != nil {
			if rp.Mode == "C10ids" {
				if classify(res.Err) == "IDS" {
					out.Violate("C10|replay", res.Err.Error(), rp.Raw)
				}
			} else {
				out.Violate("C08|replay", res.Err.Error(), rp.Raw)
			}
		}
	case "C14":
		var w struct {
			Cell C14Cell `json:"cell"`
		}
		_ = json.Unmarshal(rp.Raw, &w)
		fmt.Printf("cell %s\nfile %q\n", w.Cell.Name(), render(w.Cell.File.Format, w.Cell.File.Items, w.Cell.File.Layout))
		if _, err := runC14Cell(rn, w.Cell); err != nil {
			out.Violate("C14|replay", err.Error(), rp.Raw)
		}
	case "C13":
		replayC13(t, rn, out, rp)
	default:
		out.HarnessErr = "unknown replay mode " + rp.Mode
	}
}
