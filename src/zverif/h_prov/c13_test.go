package h_prov

import (
	"context"
	"encoding/json"
	"fmt"
	"strings"
	"testing"
	"time"

	"github.com/spf13/afero"
	"github.com/yandex/pandora/core"
	"github.com/yandex/pandora/zverif/hutil"
	"github.com/yandex/pandora/zverif/vs"
)

// ---------------------------------------------------------------------------
// C13 tier (a): every token string up to a length bound as an ammo file.

var tokenAlpha = map[string][]string{
	"uripost":   {"0", "1", "3", "-1", "9223372036854775807", "99999999999999999999", "x", " ", "/a", "tag", "\n", "[", "[A: b]", "[A]", "abc"},
	"raw":       {"0", "1", "18", "-1", "9223372036854775807", "99999999999999999999", "x", " ", "GET / HTTP/1.1\r\n\r\n", "tag", "\n", "GET /", "\r\n", "abc"},
	"uri":       {"/a", "[", "[A: b]", "[:", "%zz", " ", "\n", "]", "[A]", "http://[::1", "tag"},
	"jsonline":  {"{", "}", "[", "]", "\"uri\":", "\"/a\"", "1", ",", "\n", "null", "\"method\":\"GET\"", "\"headers\":", ":"},
	"grpc/json": {"{", "}", "[", "]", "\"call\":", "\"x\"", "1", ",", "\n", "null", "\"payload\":", "\"tag\":", ":"},
	"json":      {"{", "}", "[", "]", "\"a\":", "\"x\"", "1", ",", "\n", "null", ":"},
}

type C13Cell struct {
	Tier    string   `json:"tier"` // tokens | prefix | scenario | config
	Format  string   `json:"format"`
	Tokens  []string `json:"tokens,omitempty"`
	Prefix  []Item   `json:"prefix,omitempty"`
	Preload bool     `json:"preload,omitempty"`
	Mode    int      `json:"mode"` // 0: passes=2; 1: passes=0, limit=3
	COE     bool     `json:"continue_on_error,omitempty"`
	Text    string   `json:"text,omitempty"`
	Name_   string   `json:"name,omitempty"`
}

func (c C13Cell) Name() string {
	if c.Name_ != "" {
		return c.Tier + "|" + c.Format + "|" + c.Name_
	}
	return fmt.Sprintf("%s|%s|preload=%v|mode=%d|coe=%v|prefix=%d|%q", c.Tier, c.Format, c.Preload, c.Mode, c.COE, len(c.Prefix), strings.Join(c.Tokens, ""))
}

func (c C13Cell) file() []byte {
	var b []byte
	if len(c.Prefix) > 0 {
		l := Layout{FinalNL: true, JSON: "lines"}
		b = render(c.Format, c.Prefix, l)
	}
	return append(b, []byte(strings.Join(c.Tokens, ""))...)
}

func (c C13Cell) conf() map[string]any {
	var m map[string]any
	switch c.Format {
	case "grpc/json":
		m = map[string]any{"type": "grpc/json", "file": "/ammo"}
	case "json":
		m = map[string]any{"type": "json", "source": map[string]any{"type": "file", "path": "/ammo"}, "ammo-queue-size": 2}
	default:
		m = map[string]any{"type": formatType[c.Format], "file": "/ammo"}
		if c.Preload {
			m["preload"] = true
		}
	}
	if c.COE {
		m["continueonerror"] = true
	}
	if c.Mode == 0 {
		m["passes"] = 2
	} else {
		m["limit"] = 3
	}
	return m
}

type c13run struct {
	cell C13Cell
	drv  *Drv
	cerr error
}

func genericExtract(a core.Ammo) any {
	b, _ := json.Marshal(a)
	return string(b)
}

func (r *c13run) scenario(x *vs.X) func(end, msg string) error {
	c := r.cell
	data := c.file()
	_ = afero.WriteFile(memfs, "/ammo", data, 0o644)
	p, err := newProvider(c.conf())
	r.cerr, r.drv = err, nil
	if err != nil {
		return func(end, msg string) error {
			if strings.Contains(err.Error(), "PANIC in provider construction") {
				return fmt.Errorf("PANIC: %v", err)
			}
			return nil // rejected with an error at construction
		}
	}
	ctx, cancel := context.WithCancel(context.Background())
	x.OnAbort(cancel)
	x.Deadline = time.Now().Add(time.Hour)
	ex := genericExtract
	if _, ok := formatType[c.Format]; ok {
		ex = extractHTTP
	}
	d := &Drv{P: p, Consumers: 1, Release: true, Extract: ex}
	r.drv = d
	vs.Go("driver", func() { d.Start(ctx, cancel) })
	return func(end, msg string) error {
		defer cancel()
		return r.check(end, msg)
	}
}

func (r *c13run) check(end, msg string) error {
	d, c := r.drv, r.cell
	if d.RunPanic != "" {
		return fmt.Errorf("PANIC: provider Run panicked: %s", d.RunPanic)
	}
	if d.ConsPanic != "" {
		return fmt.Errorf("PANIC: Acquire panicked: %s", d.ConsPanic)
	}
	if end == vs.EndCap {
		return nil
	}
	if end == vs.EndSpin {
		return fmt.Errorf("SPIN: %s; delivered %d", msg, len(d.Items))
	}
	if end != vs.EndComplete {
		return fmt.Errorf("HANG: execution ended with %s (%s); delivered %d, Run returned=%v err=%v", end, msg, len(d.Items), d.RunDone, d.RunErr)
	}
	if c.Tier == "reject" {
		want := model(c.Format, c.Prefix)
		if len(d.Items) > len(want)*2 {
			return fmt.Errorf("ACCEPTED: %d items delivered from a file with %d well-formed entries (2 passes) and one malformed entry: the malformed entry was delivered", len(d.Items), len(want))
		}
		for i, it := range d.Items {
			if g := it.(httpRec).W; g != want[i%len(want)] {
				return fmt.Errorf("ACCEPTED: item %d delivered as %s: it is not one of the file's well-formed entries", i, g)
			}
		}
		if d.RunErr == nil {
			return fmt.Errorf("ACCEPTED: the run ended without an error although the file holds a malformed entry (delivered %d)", len(d.Items))
		}
	}
	if len(c.Prefix) > 0 {
		want := model(c.Format, c.Prefix)
		for i := 0; i < len(want) && i < len(d.Items); i++ {
			g := d.Items[i].(httpRec).W
			if g != want[i] {
				return fmt.Errorf("PREFIX-ALTERED: well-formed entry %d before the malformed tail delivered as\n   %s\n  expected\n   %s", i, g, want[i])
			}
		}
		if len(d.Items) < len(want) && d.RunErr == nil {
			return fmt.Errorf("PREFIX-DROPPED: %d of %d well-formed entries delivered and the run ended without an error", len(d.Items), len(want))
		}
	}
	return nil
}

// rejectCatalogue: per format, file tails each of which is one malformed entry (a header line without
// a name, sizes that are negative, not numbers or beyond any file, bodies shorter than declared,
// broken JSON). Bytes of the declared size that are not an HTTP request are not in it: the raw decoder
// hands them out as an ammo marked invalid, which the gun reports and does not shoot - that is its
// way of skipping the entry, not a run error.
var rejectCatalogue = map[string][]string{
	"uri":     {"[ : v]\n/a\n", "[: v]\n/a\n", "[\t: v]\n/a\n"},
	"uripost": {"[ : v]\n1 /a\nx\n", "-1 /a\nx\n", "18446744073709551615 /a\nx\n", "9223372036854775808 /a\nx\n", "x /a\nx\n", "5 /a\nab\n", "99999999999999999999 /a\nx\n"},
	"raw":     {"-1\nGET / HTTP/1.1\r\n\r\n", "18446744073709551615\nGET / HTTP/1.1\r\n\r\n", "9223372036854775808 t\nGET / HTTP/1.1\r\n\r\n", "x\nGET / HTTP/1.1\r\n\r\n", "40\nGET / HTTP/1.1\r\n\r\n", "99999999999999999999\nGET / HTTP/1.1\r\n\r\n"},
	"jsonline": {"{\n", "{\"uri\": 1}\n", "[1,2\n", "nonsense\n", "{\"uri\":\"/a\",\"method\":\"GET\",\"host\":\"h\"\n"},
}

func tokenStrings(alpha []string, maxLen int, fn func(toks []string)) (n int) {
	var rec func(cur []string)
	rec = func(cur []string) {
		n++
		fn(append([]string(nil), cur...))
		if len(cur) == maxLen {
			return
		}
		for _, a := range alpha {
			rec(append(cur, a))
		}
	}
	rec(nil) // includes the empty file
	return n
}

func pow(a, b int) int {
	r := 1
	for i := 0; i < b; i++ {
		r *= a
	}
	return r
}

func c13cells(thorough bool, fn func(c C13Cell)) error {
	maxLen := 3
	if thorough {
		maxLen = 4
	}
	for _, format := range []string{"uripost", "raw", "uri", "jsonline", "grpc/json", "json"} {
		alpha := tokenAlpha[format]
		want := 0
		for l := 0; l <= maxLen; l++ {
			want += pow(len(alpha), l)
		}
		got := tokenStrings(alpha, maxLen, func(toks []string) {
			for mode := 0; mode < 2; mode++ {
				fn(C13Cell{Tier: "tokens", Format: format, Tokens: toks, Mode: mode})
				if format == "grpc/json" || (format == "jsonline" && mode == 0) {
					// malformed entries are to be skipped where continue-on-error is requested
					fn(C13Cell{Tier: "tokens", Format: format, Tokens: toks, Mode: mode, COE: true})
				}
				if _, ok := formatType[format]; ok && (mode == 0 || len(toks) <= 2) {
					fn(C13Cell{Tier: "tokens", Format: format, Tokens: toks, Mode: mode, Preload: true})
				}
			}
		})
		if got != want {
			return fmt.Errorf("token enumerator for %s produced %d strings, closed form %d", format, got, want)
		}
	}
	// entries that are malformed beyond doubt: they must end in an error (or be skipped), never be delivered
	for format, tails := range rejectCatalogue {
		good := itemAlphabet(format, true)[0]
		for _, tail := range tails {
			for _, pre := range [][]Item{nil, {good}} {
				for _, preload := range []bool{false, true} {
					fn(C13Cell{Tier: "reject", Format: format, Tokens: []string{tail}, Prefix: pre, Mode: 0, Preload: preload})
				}
			}
		}
	}
	// valid prefix + malformed tail (streaming formats only)
	for _, format := range []string{"uripost", "raw", "uri", "jsonline"} {
		red := itemAlphabet(format, true)
		var prefixes [][]Item
		for _, a := range red {
			if a.Dir == nil {
				prefixes = append(prefixes, []Item{a})
			}
			for _, b := range red {
				if b.Dir == nil {
					prefixes = append(prefixes, []Item{a, b})
				}
			}
		}
		tl := 2
		tokenStrings(tokenAlpha[format], tl, func(toks []string) {
			if len(toks) == 0 {
				return
			}
			for pi, p := range prefixes {
				if !thorough && len(toks) == 2 && pi%3 != 0 {
					continue
				}
				fn(C13Cell{Tier: "prefix", Format: format, Tokens: toks, Prefix: p, Mode: 0})
			}
		})
	}
	return nil
}

func runC13(t *testing.T, spec *hutil.Spec, out *hutil.Out) {
	rn := newRunner(t, out)
	idx := 0
	var mine []C13Cell
	if err := c13cells(spec.Thorough(), func(c C13Cell) {
		idx++
		if spec.Mine(idx) && (spec.Only == "" || strings.Contains(c.Name(), spec.Only)) {
			mine = append(mine, c)
		}
	}); err != nil {
		out.HarnessErr = err.Error()
		return
	}
	for ci, c := range mine {
		if out.OverBudget() {
			return
		}
		out.Progress(c.Name())
		r := &c13run{cell: c}
		v, complete := rn.explore(0, r.scenario)
		out.Cells++
		if rn.e.HarnessErr {
			out.HarnessErr = c.Name() + ": " + v.Err.Error()
			return
		}
		if !complete {
			out.Cap("cell %s: %s", c.Name(), rn.e.CapHit)
		}
		oc := "rejected-at-construction"
		if r.drv != nil {
			oc = fmt.Sprintf("delivered=%d err=%v", len(r.drv.Items), r.drv.RunErr != nil)
			if len(r.drv.Items) > 0 || r.drv.RunErr != nil {
				out.Outcome(c.Format, string(c.file())+"|"+oc)
			}
		}
		out.Extra["outcome_"+strings.SplitN(oc, " ", 2)[0]]++
		if v != nil {
			site := classifyC13(c, v.Err)
			out.Violate("C13|"+c.Tier+"|"+c.Format+"|"+classify(v.Err)+"|"+site, c.Name()+"\n"+v.Err.Error()+fmt.Sprintf("\nfile: %q", c.file()),
				map[string]any{"mode": "C13", "cell": c})
		}
		if ci%4999 == 0 {
			out.Sample(map[string]any{"cell": c.Name(), "file": string(c.file()), "outcome": oc})
		}
	}
	runC13Scenario(t, spec, out)
}

// classifyC13 names the input class of a violation (used as part of its key).
func classifyC13(c C13Cell, err error) string {
	s := err.Error()
	switch {
	case strings.Contains(s, "makeslice"):
		return "negative-or-huge-size"
	case strings.Contains(s, "index out of range"):
		return "index-out-of-range"
	case strings.Contains(s, "nil pointer"):
		return "nil-pointer"
	case strings.Contains(s, "divide by zero"):
		return "divide-by-zero"
	}
	return "other"
}

func replayC13(t *testing.T, rn *runner, out *hutil.Out, rp replayT) {
	var w struct {
		Cell C13Cell `json:"cell"`
	}
	_ = json.Unmarshal(rp.Raw, &w)
	if w.Cell.Tier == "scenario" || w.Cell.Tier == "config" {
		replayC13Scenario(t, out, w.Cell, rp)
		return
	}
	r := &c13run{cell: w.Cell}
	v, _ := rn.explore(0, r.scenario)
	fmt.Printf("cell %s\nfile %q\nconstruction error: %v\n", w.Cell.Name(), w.Cell.file(), r.cerr)
	if r.drv != nil {
		fmt.Printf("delivered %v\nrun error: %v panic: %q %q\n", r.drv.Items, r.drv.RunErr, r.drv.RunPanic, r.drv.ConsPanic)
	}
	if v != nil {
		out.Violate("C13|replay", v.Err.Error(), rp.Raw)
	}
}
