package h_c06

import (
	"context"
	"encoding/json"
	"fmt"
	"io"
	"regexp"
	"strconv"
	"strings"
	"testing"
	"time"

	"github.com/spf13/afero"
	"github.com/yandex/pandora/core"
	"github.com/yandex/pandora/core/aggregator"
	"github.com/yandex/pandora/core/aggregator/netsample"
	"github.com/yandex/pandora/zverif/hutil"
	"github.com/yandex/pandora/zverif/vs"
)

type sinkAdapter struct{ s *memSink }

func (a sinkAdapter) OpenSink() (io.WriteCloser, error) {
	a.s.opened++
	return memWC{a.s}, nil
}

type Cell struct {
	Kind      string `json:"kind"` // phout jsonlines
	Reporters int    `json:"reporters"`
	Per       int    `json:"per"`
	Queue     int    `json:"queue"`
	FlushMs   int64  `json:"flush_ms"`
	PauseMs   int64  `json:"pause_ms"`
	ID        bool   `json:"id"`
	Bound     int    `json:"bound"`
	Stale     bool   `json:"stale,omitempty"` // phout: the destination exists already, left by a longer earlier run
	Big       bool   `json:"big,omitempty"` // jsonlines: smallest buffer, samples of ~700 bytes with a json.Marshaler field: the encoder writes through to the sink by itself
}

func (c Cell) Name() string {
	return fmt.Sprintf("%s|R=%d|k=%d|queue=%d|flush=%dms|pause=%dms|id=%v|big=%v|stale=%v", c.Kind, c.Reporters, c.Per, c.Queue, c.FlushMs, c.PauseMs, c.ID, c.Big, c.Stale)
}

type jsample struct {
	ID  int    `json:"id"`
	Tag string `json:"tag"`
	Val int    `json:"val"`
}

// jbig carries a json.Marshaler field: jsoniter hands such values down to its writer while encoding.
type jbig struct {
	ID  int       `json:"id"`
	Tag string    `json:"tag"`
	At  time.Time `json:"at"`
	Pad string    `json:"pad"`
}

type run struct {
	cell     Cell
	fs       afero.Fs
	sink     *memSink
	reported map[int]bool
	runErr   error
	runDone  bool
	t0       time.Time
}

func (r *run) scenario(x *vs.X) func(end, msg string) error {
	c := r.cell
	r.t0 = time.Now()
	r.reported = map[int]bool{}
	r.runErr, r.runDone = nil, false
	var agg core.Aggregator
	switch c.Kind {
	case "phout":
		r.fs = afero.NewMemMapFs()
		if c.Stale {
			old := strings.Repeat("1700000000.000\told#9999\t1\t2\t3\t4\t5\t6\t9999\t8\t9\t200\n", 40) + "1700000000.000\ttorn"
			_ = afero.WriteFile(r.fs, "phout.log", []byte(old), 0o644)
		}
		a, err := netsample.NewPhout(r.fs, netsample.PhoutConfig{Destination: "phout.log", ID: c.ID, SampleQueueSize: c.Queue})
		if err != nil {
			panic(err)
		}
		agg = netsample.WrapAggregator(a)
	case "jsonlines":
		r.sink = &memSink{}
		conf := aggregator.DefaultJSONLinesAggregatorConfig()
		conf.Sink = sinkAdapter{r.sink}
		conf.FlushInterval = time.Duration(c.FlushMs) * time.Millisecond
		conf.ReporterConfig.SampleQueueSize = c.Queue
		if c.Big {
			conf.JSONLineEncoderConfig.BufferSize = 1 // the minimum (4 KiB) is used
		}
		agg = aggregator.NewJSONLinesAggregator(conf)
	}
	ctx, cancel := context.WithCancel(context.Background())
	x.OnAbort(cancel)
	x.Deadline = r.t0.Add(10 * time.Minute)
	mk := func(rr, i int) core.Sample {
		id := rr*100 + i + 1
		if c.Kind == "phout" {
			s := netsample.Acquire(fmt.Sprintf("tag%d", rr))
			s.SetID(uint64(id))
			s.SetProtoCode(200 + i)
			s.SetRequestBytes(id)
			return s
		}
		if c.Big {
			return &jbig{ID: id, Tag: fmt.Sprintf("t\"%d\n", rr), At: time.Unix(int64(id), 0).UTC(), Pad: strings.Repeat("p", 700)}
		}
		return &jsample{ID: id, Tag: fmt.Sprintf("t\"%d\n", rr), Val: i}
	}
	vs.Go("driver", func() {
		drive(ctx, cancel, agg, c.Reporters, c.Per, time.Duration(c.PauseMs)*time.Millisecond, mk,
			func(rr, i int) { r.reported[rr*100+i+1] = true },
			func(err error) { r.runErr, r.runDone = err, true })
	})
	return func(end, msg string) error {
		if err := r.check(end, msg); err != nil {
			return fmt.Errorf("%v\n  run error: %v\n  output:\n%s", err, r.runErr, r.output())
		}
		return nil
	}
}

func (r *run) output() string {
	if r.cell.Kind == "phout" {
		b, _ := afero.ReadFile(r.fs, "phout.log")
		return string(b)
	}
	return r.sink.buf.String()
}

var dropRe = regexp.MustCompile(`(\d+) samples were dropped`)

func (r *run) check(end, msg string) error {
	if end != vs.EndComplete {
		return fmt.Errorf("TERMINATION: execution ended with %s (%s)", end, msg)
	}
	if !r.runDone {
		return fmt.Errorf("TERMINATION: aggregator Run did not return")
	}
	total := r.cell.Reporters * r.cell.Per
	if len(r.reported) != total {
		return fmt.Errorf("HARNESS: %d of %d reports made", len(r.reported), total)
	}
	out := r.output()
	if out != "" && !strings.HasSuffix(out, "\n") {
		return fmt.Errorf("TORN: output does not end with a newline")
	}
	lines := strings.Split(strings.TrimSuffix(out, "\n"), "\n")
	if out == "" {
		lines = nil
	}
	seen := map[int]bool{}
	for _, l := range lines {
		var id int
		if r.cell.Kind == "phout" {
			f := strings.Split(l, "\t")
			if len(f) != 12 {
				return fmt.Errorf("MALFORMED: phout line has %d fields: %q", len(f), l)
			}
			if !regexp.MustCompile(`^\d+\.\d{3}$`).MatchString(f[0]) {
				return fmt.Errorf("MALFORMED: timestamp %q", f[0])
			}
			for _, v := range f[2:] {
				if _, err := strconv.Atoi(v); err != nil {
					return fmt.Errorf("MALFORMED: field %q in %q", v, l)
				}
			}
			if r.cell.ID {
				i := strings.LastIndex(f[1], "#")
				if i < 0 {
					return fmt.Errorf("MALFORMED: no #id in %q", l)
				}
				id, _ = strconv.Atoi(f[1][i+1:])
			} else {
				id, _ = strconv.Atoi(f[2+6]) // request bytes carries the id
			}
		} else {
			var s jsample
			if err := json.Unmarshal([]byte(l), &s); err != nil {
				return fmt.Errorf("MALFORMED: line is not one JSON value: %q (%v)", l, err)
			}
			id = s.ID
		}
		if seen[id] {
			return fmt.Errorf("DUPLICATE: sample %d written twice", id)
		}
		if !r.reported[id] {
			return fmt.Errorf("MALFORMED: line for unknown sample id %d: %q", id, l)
		}
		seen[id] = true
	}
	dropped := 0
	if r.runErr != nil {
		m := dropRe.FindStringSubmatch(r.runErr.Error())
		if m == nil {
			return fmt.Errorf("RUN-ERROR: %v", r.runErr)
		}
		dropped, _ = strconv.Atoi(m[1])
		if r.cell.Kind == "phout" {
			return fmt.Errorf("RUN-ERROR: phout must not drop: %v", r.runErr)
		}
	}
	if len(lines)+dropped != total {
		return fmt.Errorf("LOST: %d lines written + %d counted drops != %d reports", len(lines), dropped, total)
	}
	if r.cell.Kind == "jsonlines" {
		if r.sink.closed != 1 || r.sink.late > 0 {
			return fmt.Errorf("CLOSE: sink closed %d times, %d writes after close", r.sink.closed, r.sink.late)
		}
	}
	return nil
}

func cells(thorough bool) []Cell {
	var out []Cell
	bound := 1
	if thorough {
		bound = 2
	}
	// enough big samples for the encoder to overflow its 4 KiB buffers several times
	for _, R := range []int{1, 2} {
		for _, per := range []int{7, 13} {
			for _, fl := range []int64{0, 1000} {
				for _, pause := range []int64{0, 600} {
					out = append(out, Cell{Kind: "jsonlines", Reporters: R, Per: per, Queue: 64, FlushMs: fl, PauseMs: pause, Bound: R - 1, Big: true})
				}
			}
		}
	}
	for _, R := range []int{1, 2} {
		out = append(out, Cell{Kind: "phout", Reporters: R, Per: 2, Queue: 64, FlushMs: 1000, ID: R == 1, Bound: R - 1, Stale: true})
	}
	for _, kind := range []string{"phout", "jsonlines"} {
		for R := 1; R <= 3; R++ {
			for per := 1; per <= 2; per++ {
				for _, q := range []int{1, 2, 64} {
					for _, pause := range []int64{0, 600} {
						if pause > 0 && per == 1 {
							continue
						}
						flushes := []int64{1000}
						if kind == "jsonlines" {
							flushes = []int64{0, 1000}
						}
						for _, fl := range flushes {
							b := bound
							if thorough && R == 3 && per == 2 {
								b = 1
							}
							out = append(out, Cell{Kind: kind, Reporters: R, Per: per, Queue: q, FlushMs: fl, PauseMs: pause, ID: (R+per)%2 == 0, Bound: b})
						}
					}
				}
			}
		}
	}
	return out
}

// ---- tier (a): line format, exhaustive enumeration against an independent formatter

func refPhout(ts time.Time, tag string, withID bool, id uint64, f [10]int) string {
	ms := ts.UnixNano() / 1e6
	s := fmt.Sprintf("%d.%03d\t%s", ms/1000, ms%1000, tag)
	if withID {
		s += fmt.Sprintf("#%d", id)
	}
	for _, v := range f {
		s += fmt.Sprintf("\t%d", v)
	}
	return s
}

func formatTier(out *hutil.Out, spec *hutil.Spec) {
	vals := []int{0, 1, -1, 999, 1 << 31, int(^uint(0) >> 1)}
	stamps := []time.Time{
		time.Date(2000, 1, 1, 0, 0, 0, 0, time.UTC), time.Date(2000, 1, 1, 0, 0, 0, 1e6, time.UTC),
		time.Date(2012, 4, 27, 11, 7, 13, 562e6, time.UTC), time.Date(2030, 12, 31, 23, 59, 59, 999e6, time.UTC),
		time.Date(2024, 2, 29, 1, 2, 3, 999999999, time.UTC), time.Date(2001, 9, 9, 1, 46, 40, 10e6, time.UTC),
	}
	tags := []string{"", "a", "a|b", "тег", "__EMPTY__", "discarded"}
	n := 0
	check := func(ts time.Time, tag string, withID bool, id uint64, f [10]int) {
		n++
		if n%spec.Workers != spec.Worker {
			return
		}
		got := string(netsample.ZvAppendPhout(netsample.ZvNewSample(ts, tag, id, f), withID))
		want := refPhout(ts, tag, withID, id, f)
		out.Evals++
		out.States++
		out.Transitions++
		if got != want {
			out.Violate("C06|FORMAT", fmt.Sprintf("phout line %q, documented layout gives %q", got, want),
				map[string]any{"tier": "format", "ts": ts.UnixNano(), "tag": tag, "id": id, "with_id": withID, "fields": f})
		}
		if n%5000 == 1 {
			out.Sample(map[string]any{"phout_line": got})
		}
	}
	// every millisecond value of the timestamp
	for ms := 0; ms < 1000; ms++ {
		ts := time.Date(2017, 1, 17, 13, 49, 59, ms*1e6+(ms%7)*1000, time.UTC)
		var f [10]int
		f[ms%10] = ms
		check(ts, "t", ms%2 == 0, uint64(ms), f)
	}
	for _, ts := range stamps {
		for _, tag := range tags {
			for _, withID := range []bool{false, true} {
				for _, id := range []uint64{0, 1, 1 << 40} {
					// all vectors with at most 2 non-zero positions
					var f [10]int
					check(ts, tag, withID, id, f)
					for i := 0; i < 10; i++ {
						for _, v := range vals[1:] {
							f = [10]int{}
							f[i] = v
							check(ts, tag, withID, id, f)
							if !spec.Thorough() && (i+int(id))%3 != 0 {
								continue
							}
							for j := i + 1; j < 10; j++ {
								for _, u := range vals[1:] {
									f[j] = u
									check(ts, tag, withID, id, f)
									f[j] = 0
								}
							}
						}
					}
				}
			}
		}
	}
	out.Extra["format_lines"] += out.Evals
}

type replay struct {
	Cell    Cell  `json:"cell"`
	Choices []int `json:"choices"`
	Policy  int   `json:"policy"`
}

func classify(err error) string {
	s := err.Error()
	if i := strings.Index(s, ":"); i > 0 && i < 24 {
		return s[:i]
	}
	return "other"
}

func TestWorker(t *testing.T) {
	spec, out := hutil.Load()
	if spec == nil {
		t.Skip("no VERIF_SPEC")
	}
	defer out.Save()
	if spec.Replay != nil {
		var probe map[string]any
		_ = json.Unmarshal(spec.Replay, &probe)
		if probe["tier"] == "format" {
			fmt.Printf("format replay: %v\n", probe)
			formatTier(out, spec)
			return
		}
		var rp replay
		if err := json.Unmarshal(spec.Replay, &rp); err != nil {
			t.Fatal(err)
		}
		r := &run{cell: rp.Cell}
		e := vs.NewExplorer(t, vs.Opts{Bound: rp.Cell.Bound, DelayBound: true, Policy: rp.Policy}, r.scenario)
		res := e.RunOne(rp.Choices, -1, nil)
		fmt.Printf("cell: %s\nend: %s %s\nrun error: %v\noutput:\n%s", rp.Cell.Name(), res.End, res.Msg, r.runErr, r.output())
		if res.Err != nil {
			out.Violate("C06|replay", res.Err.Error(), rp)
		}
		return
	}
	formatTier(out, spec)
	all := cells(spec.Thorough())
	for ci, c := range all {
		if !spec.Mine(ci) || (spec.Only != "" && !strings.Contains(c.Name(), spec.Only)) {
			continue
		}
		if out.OverBudget() {
			break
		}
		out.Cells++
		for pol := 0; pol < 2; pol++ {
			r := &run{cell: c}
			e := vs.NewExplorer(t, vs.Opts{Bound: c.Bound, DelayBound: true, Policy: pol}, r.scenario)
			e.RealStop = out.Deadline()
			e.OnExec = func(res *vs.Result) { out.Outcome(c.Name(), fmt.Sprintf("%v|%s", r.runErr, r.output())) }
			complete := e.Explore()
			out.Evals += int64(e.Execs)
			out.States += int64(e.Nodes)
			out.Transitions += int64(e.Steps)
			out.Extra["pruned_select_duplicates"] += int64(e.Pruned)
			out.Extra["leaked_goroutines"] += int64(e.Leaked)
			for k, v := range e.Ends {
				out.Extra["end_"+k] += int64(v)
			}
			if int64(e.MaxDepth) > out.Extra["max_depth"] {
				out.Extra["max_depth"] = int64(e.MaxDepth)
			}
			if !complete || e.CapHit != "" {
				out.Cap("cell %s: %s (bound completed %d)", c.Name(), e.CapHit, e.BoundDone)
			}
			if e.HarnessErr {
				out.HarnessErr = c.Name() + ": " + e.Violation.Err.Error()
				return
			}
			if v := e.Violation; v != nil {
				rp := replay{Cell: c, Choices: v.Choices, Policy: pol}
				flaky := false
				for k := 0; k < 5; k++ {
					res := e.RunOne(v.Choices, -1, nil)
					if res.Err == nil || classify(res.Err) != classify(v.Err) {
						flaky = true
					}
				}
				out.Violate("C06|"+c.Kind+"|"+classify(v.Err), fmt.Sprintf("%s (deviations=%d)\n%s", c.Name(), v.Preempts, v.Err.Error()), rp)
				if flaky {
					out.Violations[len(out.Violations)-1].Flaky = true
				}
				break
			}
			if pol == 1 && ci%23 == 0 {
				out.Sample(map[string]any{"cell": c.Name(), "executions": e.Execs, "choice_points_max": e.MaxDepth, "ends": e.Ends})
			}
		}
	}
}
