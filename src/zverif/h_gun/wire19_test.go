package h_gun

// C19, raw-socket tier: a target (and, for the connect gun, a proxy phase) that answers with bytes no
// HTTP library would produce. A scripted TCP server answers every request by its path: "/ok<i>" gets a
// plain 200, "/dev" gets the cell's deviation. Three requests are fired one after the other by one real
// gun (http or connect, keep-alive on/off, ssl on/off) with the deviation at every position. Oracle:
// Shoot returns every time (no panic; a 30 s watchdog only names a hang), exactly one sample per request,
// the deviating request's sample carries the received status or a failure, the other requests are
// reported as 200 with net code 0. The quantifier (deviation x position x gun configuration) is
// enumerated completely; the runs are sequential, so there is one schedule per cell.

import (
	"bufio"
	"crypto/tls"
	"fmt"
	"net"
	"net/http"
	"strings"
	"sync"
	"time"

	phttp "github.com/yandex/pandora/components/guns/http"
	"github.com/yandex/pandora/core/aggregator/netsample"
	"github.com/yandex/pandora/zverif/hutil"
	"context"
	"github.com/yandex/pandora/core"
)

const okAnswer = "HTTP/1.1 200 OK\r\nContent-Length: 2\r\n\r\nok"

type wireDev struct {
	Name  string
	Bytes string // what the target writes instead of an answer
	Close bool   // and closes the connection afterwards
	// expectation for the deviating request
	Status  int  // protocol code that must be reported (0: none received)
	Failure bool // the sample must carry a failure (error / non-zero net code)
	Either  bool // the status may or may not have been seen before the failure (both reports are faithful)
}

var wireDevs = []wireDev{
	{Name: "close-without-answer", Close: true, Failure: true},
	{Name: "garbage", Bytes: "\x00\x01\x02garbage\r\n\r\n", Close: true, Failure: true},
	{Name: "bad-status-line", Bytes: "HTTP/1.1 abc OK\r\nContent-Length: 0\r\n\r\n", Close: true, Failure: true},
	{Name: "not-http", Bytes: "SSH-2.0-OpenSSH_8.9\r\n", Close: true, Failure: true},
	{Name: "header-breaks-off", Bytes: "HTTP/1.1 200 OK\r\nContent-Le", Close: true, Failure: true},
	{Name: "header-without-colon", Bytes: "HTTP/1.1 200 OK\r\nthis is no header\r\n\r\n", Close: true, Failure: true},
	{Name: "short-body", Bytes: "HTTP/1.1 200 OK\r\nContent-Length: 10\r\n\r\nabc", Close: true, Status: 200, Failure: true},
	{Name: "bad-chunk-size", Bytes: "HTTP/1.1 200 OK\r\nTransfer-Encoding: chunked\r\n\r\nzz\r\nabc\r\n", Close: true, Status: 200, Failure: true},
	{Name: "chunked-breaks-off", Bytes: "HTTP/1.1 200 OK\r\nTransfer-Encoding: chunked\r\n\r\n5\r\nab", Close: true, Status: 200, Failure: true},
	// (the guns switch transparent decompression off by default: the body is opaque bytes to them)
	{Name: "gzip-that-is-not", Bytes: "HTTP/1.1 200 OK\r\nContent-Encoding: gzip\r\nContent-Length: 8\r\n\r\nnot gzip", Status: 200},
	{Name: "negative-content-length", Bytes: "HTTP/1.1 200 OK\r\nContent-Length: -5\r\n\r\n", Close: true, Failure: true},
	{Name: "two-content-lengths", Bytes: "HTTP/1.1 200 OK\r\nContent-Length: 2\r\nContent-Length: 3\r\n\r\nokk", Close: true, Failure: true},
	{Name: "status-999", Bytes: "HTTP/1.1 999 Weird\r\nContent-Length: 0\r\n\r\n", Status: 999},
	{Name: "status-000", Bytes: "HTTP/1.1 000 Zero\r\nContent-Length: 0\r\n\r\n", Close: true, Either: true},
	{Name: "status-without-reason", Bytes: "HTTP/1.1 503\r\nContent-Length: 0\r\n\r\n", Status: 503},
	{Name: "http10-until-close", Bytes: "HTTP/1.0 200 OK\r\n\r\nbody until close", Close: true, Status: 200},
	{Name: "continue-flood", Bytes: strings.Repeat("HTTP/1.1 100 Continue\r\n\r\n", 3) + okAnswer, Status: 200},
	{Name: "redirect-to-self", Bytes: "HTTP/1.1 302 Found\r\nLocation: /dev\r\nContent-Length: 0\r\n\r\n", Status: 302},
	// (redirects are not followed by default: whatever Location says, the 3xx is the status received)
	{Name: "redirect-to-nowhere", Bytes: "HTTP/1.1 301 Moved\r\nLocation: ::::\r\nContent-Length: 0\r\n\r\n", Status: 301},
	{Name: "redirect-bad-ipv6", Bytes: "HTTP/1.1 302 Found\r\nLocation: http://[::1/next\r\nContent-Length: 0\r\n\r\n", Status: 302},
	{Name: "redirect-bad-escape", Bytes: "HTTP/1.1 307 Temporary Redirect\r\nLocation: /next%zz\r\nContent-Length: 0\r\n\r\n", Status: 307},
	{Name: "redirect-port-only", Bytes: "HTTP/1.1 308 Permanent Redirect\r\nLocation: :8080/next\r\nContent-Length: 0\r\n\r\n", Status: 308},
	{Name: "redirect-without-location", Bytes: "HTTP/1.1 303 See Other\r\nContent-Length: 0\r\n\r\n", Status: 303},
	{Name: "hundred-headers", Bytes: "HTTP/1.1 200 OK\r\n" + strings.Repeat("X-H: v\r\n", 100) + "Content-Length: 2\r\n\r\nok", Status: 200},
	{Name: "64k-header-value", Bytes: "HTTP/1.1 200 OK\r\nX-H: " + strings.Repeat("v", 64<<10) + "\r\nContent-Length: 2\r\n\r\nok", Status: 200},
	{Name: "empty-reason-and-lf-only", Bytes: "HTTP/1.1 200 \nContent-Length: 2\n\nok", Status: 200},
	{Name: "401-with-challenge", Bytes: "HTTP/1.1 401 Unauthorized\r\nWWW-Authenticate: Basic realm=\"x\"\r\nContent-Length: 0\r\n\r\n", Status: 401},
	{Name: "101-switching", Bytes: "HTTP/1.1 101 Switching Protocols\r\nUpgrade: websocket\r\nConnection: Upgrade\r\n\r\n", Close: true, Status: 101},
}

// proxy-phase deviations of the connect gun: what the proxy answers to CONNECT
var proxyDevs = []wireDev{
	{Name: "connect-403", Bytes: "HTTP/1.1 403 Forbidden\r\nContent-Length: 0\r\n\r\n", Close: true, Failure: true},
	{Name: "connect-500-with-body", Bytes: "HTTP/1.1 500 Oops\r\nContent-Length: 4\r\n\r\noops", Close: true, Failure: true},
	{Name: "connect-garbage", Bytes: "\x16\x03\x01garbage", Close: true, Failure: true},
	{Name: "connect-closed", Close: true, Failure: true},
	{Name: "connect-200-extra-data", Bytes: "HTTP/1.1 200 OK\r\n\r\nHTTP/1.1 200 OK\r\nContent-Length: 2\r\n\r\nok", Close: true, Failure: true},
	{Name: "connect-204", Bytes: "HTTP/1.1 204 No Content\r\n\r\n", Close: true, Failure: true},
	// the proxy refuses and its explanation never ends while the connection stays open
	{Name: "connect-403-endless-body", Bytes: "HTTP/1.1 403 Forbidden\r\nContent-Length: 100\r\n\r\nshort", Failure: true},
	{Name: "connect-502-unterminated-chunks", Bytes: "HTTP/1.1 502 Bad Gateway\r\nTransfer-Encoding: chunked\r\n\r\n5\r\nabcde\r\n", Failure: true},
	{Name: "connect-407-no-length-no-close", Bytes: "HTTP/1.1 407 Proxy Authentication Required\r\nProxy-Authenticate: Basic\r\n\r\nplease", Failure: true},
}

type wireCell struct {
	Tier     string `json:"tier"`
	Dev      string `json:"dev"`
	Proxy    bool   `json:"proxy_phase,omitempty"` // the deviation is the proxy's answer to the Pos-th CONNECT
	Pos      int    `json:"pos"`
	Gun      string `json:"gun"`
	SSL      bool   `json:"ssl"`
	NoKeep   bool   `json:"no_keepalive"`
	AnswLog  bool   `json:"answlog,omitempty"`
	DebugLog bool   `json:"debug,omitempty"`
	Trace    bool   `json:"trace,omitempty"`
}

func (c wireCell) Name() string {
	return fmt.Sprintf("wire|dev=%s|proxy=%v|pos=%d|gun=%s|ssl=%v|nokeep=%v|answlog=%v|debug=%v|trace=%v", c.Dev, c.Proxy, c.Pos, c.Gun, c.SSL, c.NoKeep, c.AnswLog, c.DebugLog, c.Trace)
}

// poolAgg does what the phout aggregator does with a sample: it takes what it needs and gives the sample
// back to the pool, so that the next request gets a re-used sample (which must come back clean).
type sampleCodes struct {
	proto, net int
	err        error
}

func (s sampleCodes) Err() error { return s.err }

type poolAgg struct{ samples []sampleCodes }

func (a *poolAgg) Run(ctx context.Context, _ core.AggregatorDeps) error { <-ctx.Done(); return nil }
func (a *poolAgg) Report(s *netsample.Sample) {
	a.samples = append(a.samples, sampleCodes{proto: s.ProtoCode(), net: netsample.ZvErrno(s), err: s.Err()})
	netsample.ZvRelease(s)
}

type wireServer struct {
	ln       net.Listener
	mu       sync.Mutex
	dev      wireDev
	proxyDev *wireDev
	proxyPos int
	connects int
	requests []string
}

func newWireServer() (*wireServer, error) {
	ln, err := net.Listen("tcp", "127.0.0.1:0")
	if err != nil {
		return nil, err
	}
	s := &wireServer{ln: ln}
	go func() {
		for {
			c, err := ln.Accept()
			if err != nil {
				return
			}
			go s.serve(c)
		}
	}()
	return s, nil
}

func (s *wireServer) serve(c net.Conn) {
	defer func() { c.Close() }()
	br := bufio.NewReader(c)
	tunnel := false
	for {
		req, err := http.ReadRequest(br)
		if err != nil {
			return
		}
		if req.Method == "CONNECT" && !tunnel {
			s.mu.Lock()
			s.connects++
			n := s.connects
			pd, pp := s.proxyDev, s.proxyPos
			s.mu.Unlock()
			if pd != nil && n == pp {
				_, _ = c.Write([]byte(pd.Bytes))
				if pd.Close {
					return
				}
				continue
			}
			tunnel = true
			if _, err := c.Write([]byte("HTTP/1.1 200 OK\r\n\r\n")); err != nil {
				return
			}
			if b, err := br.Peek(1); err == nil && b[0] == 0x16 {
				tc := tls.Server(&bufConn{Conn: c, r: br}, &tls.Config{Certificates: []tls.Certificate{selfSigned()}, NextProtos: []string{"http/1.1"}})
				c = tc
				br = bufio.NewReader(tc)
			}
			continue
		}
		s.mu.Lock()
		s.requests = append(s.requests, req.URL.Path)
		dev := s.dev
		s.mu.Unlock()
		if req.URL.Path != "/dev" {
			if _, err := c.Write([]byte(okAnswer)); err != nil {
				return
			}
			continue
		}
		_, _ = c.Write([]byte(dev.Bytes))
		if dev.Close {
			return
		}
	}
}

// a TLS front for the plain http gun with ssl: terminates TLS and speaks the script inside
func (s *wireServer) tlsFront() (net.Listener, error) {
	ln, err := net.Listen("tcp", "127.0.0.1:0")
	if err != nil {
		return nil, err
	}
	tl := tls.NewListener(ln, &tls.Config{Certificates: []tls.Certificate{selfSigned()}, NextProtos: []string{"http/1.1"}})
	go func() {
		for {
			c, err := tl.Accept()
			if err != nil {
				return
			}
			go s.serve(c)
		}
	}()
	return tl, nil
}

func findDev(name string, proxy bool) (wireDev, bool) {
	l := wireDevs
	if proxy {
		l = proxyDevs
	}
	for _, d := range l {
		if d.Name == name {
			return d, true
		}
	}
	return wireDev{}, false
}

func runWireCell(c wireCell) (verr error) {
	dev, ok := findDev(c.Dev, c.Proxy)
	if !ok {
		return fmt.Errorf("HARNESS: unknown deviation %s", c.Dev)
	}
	srv, err := newWireServer()
	if err != nil {
		return fmt.Errorf("HARNESS: listen: %v", err)
	}
	defer srv.ln.Close()
	addr := srv.ln.Addr().String()
	if c.Proxy {
		srv.proxyDev, srv.proxyPos = &dev, c.Pos+1
	} else {
		srv.dev = dev
	}
	if c.SSL && c.Gun == "http" {
		tl, err := srv.tlsFront()
		if err != nil {
			return fmt.Errorf("HARNESS: listen: %v", err)
		}
		defer tl.Close()
		addr = tl.Addr().String()
	}
	gconf := phttp.DefaultHTTPGunConfig()
	if c.Gun == "connect" {
		gconf = phttp.DefaultConnectGunConfig()
	}
	gconf.Target, gconf.TargetResolved = addr, addr
	gconf.SSL = c.SSL
	gconf.Client.Transport.DisableKeepAlives = c.NoKeep
	gconf.Client.Transport.ResponseHeaderTimeout = 10 * time.Second
	gconf.HTTPTrace.DumpEnabled, gconf.HTTPTrace.TraceEnabled = c.Trace, c.Trace
	answLog := answLogger(c.AnswLog)
	if c.AnswLog {
		gconf.AnswLog.Enabled, gconf.AnswLog.Filter = true, "all"
	}
	g := phttp.NewHTTP1Gun(gconf, answLog)
	if c.Gun == "connect" {
		g = phttp.NewConnectGun(gconf, answLog)
	}
	a := &poolAgg{}
	if err := g.Bind(a, gunDeps(0)); err != nil {
		return fmt.Errorf("HARNESS: bind: %v", err)
	}
	g.DebugLog = c.DebugLog
	defer g.Close()
	paths := []string{"/ok0", "/ok1", "/ok2"}
	if !c.Proxy {
		paths[c.Pos] = "/dev"
	}
	done := make(chan string, 1)
	go func() {
		defer func() {
			if r := recover(); r != nil {
				done <- fmt.Sprintf("PANIC: Shoot panicked: %v", r)
				return
			}
			done <- ""
		}()
		for _, p := range paths {
			g.Shoot(newAmmo(p))
		}
	}()
	select {
	case msg := <-done:
		if msg != "" {
			return fmt.Errorf("%s", msg)
		}
	case <-time.After(30 * time.Second):
		return fmt.Errorf("STALLED: the instance is still inside Shoot 30 s after the target answered %q", dev.Bytes)
	}
	if len(a.samples) != len(paths) {
		return fmt.Errorf("SAMPLES: %d requests fired, %d samples reported", len(paths), len(a.samples))
	}
	// which request is the affected one: the deviating path, or (proxy phase) the request whose dial met the Pos-th CONNECT
	affected := c.Pos
	if c.Proxy && !c.NoKeep {
		// with keep-alive, CONNECT number n+1 is sent by the first request after n failed dials: the Pos-th request
		affected = c.Pos
		if c.Pos > 0 {
			affected = -1 // the tunnel of the first request is reused: no later CONNECT, nothing deviates
		}
	}
	for i, s := range a.samples {
		netc := s.net
		failed := s.err != nil || netc != 0
		if i != affected {
			if s.proto != 200 || failed {
				return fmt.Errorf("OTHER: request %d (%s) was answered 200 but is reported as code %d net %d err %v; the deviating answer belongs to request %d", i, paths[i], s.proto, netc, s.err, affected)
			}
			continue
		}
		switch {
		case dev.Either:
			if !failed && s.proto == 200 {
				return fmt.Errorf("SAMPLE: answer %q reported as a plain 200", dev.Bytes)
			}
		case dev.Failure && dev.Status == 0:
			if !failed {
				return fmt.Errorf("SAMPLE: answer %q (no usable response) reported without a failure: code %d net %d err %v", dev.Bytes, s.proto, netc, s.err)
			}
			if s.proto != 0 {
				return fmt.Errorf("SAMPLE: answer %q (no usable response) reported with protocol code %d", dev.Bytes, s.proto)
			}
		case dev.Failure:
			if !failed {
				return fmt.Errorf("SAMPLE: answer %q (status %d, body breaks) reported without a failure", dev.Bytes, dev.Status)
			}
			if s.proto != dev.Status {
				return fmt.Errorf("SAMPLE: answer %q reported with protocol code %d, the status received is %d", dev.Bytes, s.proto, dev.Status)
			}
		default:
			if s.proto != dev.Status || failed {
				return fmt.Errorf("SAMPLE: answer %.80q reported as code %d net %d err %v, the status received is %d", dev.Bytes, s.proto, netc, s.err, dev.Status)
			}
		}
	}
	return nil
}

func wireCells(thorough bool) []wireCell {
	var out []wireCell
	for _, gun := range []string{"http", "connect"} {
		for _, ssl := range []bool{false, true} {
			for _, nk := range []bool{false, true} {
				for _, d := range wireDevs {
					for pos := 0; pos < 3; pos++ {
						out = append(out, wireCell{Tier: "wire", Dev: d.Name, Pos: pos, Gun: gun, SSL: ssl, NoKeep: nk})
						if !ssl && !nk && (thorough || pos == 1) {
							out = append(out, wireCell{Tier: "wire", Dev: d.Name, Pos: pos, Gun: gun, AnswLog: true})
							out = append(out, wireCell{Tier: "wire", Dev: d.Name, Pos: pos, Gun: gun, DebugLog: true, Trace: true})
							out = append(out, wireCell{Tier: "wire", Dev: d.Name, Pos: pos, Gun: gun, AnswLog: true, DebugLog: true, Trace: true})
						}
					}
				}
				if gun == "connect" {
					for _, d := range proxyDevs {
						for pos := 0; pos < 3; pos++ {
							out = append(out, wireCell{Tier: "wire", Dev: d.Name, Proxy: true, Pos: pos, Gun: gun, SSL: ssl, NoKeep: nk})
						}
					}
				}
			}
		}
	}
	return out
}

func runWire(spec *hutil.Spec, out *hutil.Out) {
	for i, c := range wireCells(spec.Thorough()) {
		if spec.Only != "" && !strings.Contains(c.Name(), spec.Only) {
			continue
		}
		if d, _ := findDev(c.Dev, c.Proxy); spec.Property == "C10" && (c.Proxy || d.Either || c.SSL || c.NoKeep) {
			continue // C10 takes the cells with a definite expectation for the sample's codes (plain, keep-alive)
		}
		if out.OverBudget() {
			return
		}
		out.Progress(c.Name())
		out.Cells++
		out.Evals++
		out.States += 3
		out.Transitions += 3
		err := runWireCell(c)
		out.Outcome("wire", c.Name())
		if err != nil && strings.HasPrefix(err.Error(), "HARNESS:") {
			out.Cap("cell %s not decided: %v", c.Name(), err)
			continue
		}
		if err != nil {
			out.Violate(spec.Property+"|"+c.Gun+"|"+classify(err)+"|wire:"+c.Dev, c.Name()+"\n"+err.Error(), c)
		}
		if i%97 == 0 {
			out.Sample(c)
		}
	}
}
