package h_gun

import (
	"testing"

	"github.com/yandex/pandora/zverif/hutil"
)

func runOther(t *testing.T, spec *hutil.Spec, out *hutil.Out) {
	out.HarnessErr = "unknown property " + spec.Property
}

func replayOther(t *testing.T, spec *hutil.Spec, out *hutil.Out, tier string) {
	out.HarnessErr = "unknown replay tier " + tier
}
