package h_gun

import (
	"context"
	"errors"
	"fmt"
	"io"
	"net"
	"net/http"
	"net/url"
	"os"
	"strings"
	"syscall"

	phttp "github.com/yandex/pandora/components/guns/http"
	grpcgun "github.com/yandex/pandora/components/guns/grpc"
	httpammo "github.com/yandex/pandora/components/providers/http/ammo"
	"github.com/yandex/pandora/core/aggregator/netsample"
	"github.com/yandex/pandora/zverif/hutil"
	"google.golang.org/grpc/codes"
	"google.golang.org/grpc/status"
	"go.uber.org/zap"
	"go.uber.org/zap/zapcore"
)

// documented table of docs/eng/grpc-generator.md (transcribed)
var grpcTable = map[codes.Code]int{
	codes.OK: 200, codes.Canceled: 499, codes.InvalidArgument: 400, codes.DeadlineExceeded: 504, codes.NotFound: 404,
	codes.AlreadyExists: 409, codes.PermissionDenied: 403, codes.ResourceExhausted: 429, codes.FailedPrecondition: 400,
	codes.Aborted: 409, codes.OutOfRange: 400, codes.Unimplemented: 501, codes.Unavailable: 503, codes.Unauthenticated: 401,
}

func c10grpc(out *hutil.Out) {
	for _, c := range []uint32{0, 1, 2, 3, 4, 5, 6, 7, 8, 9, 10, 11, 12, 13, 14, 15, 16, 17, 18, 100, 1 << 31, 1<<32 - 1} {
		code := codes.Code(c)
		want, ok := grpcTable[code]
		if !ok {
			want = 500
		}
		var err error
		if code != codes.OK {
			err = status.Error(code, "x")
		}
		got := grpcgun.ConvertGrpcStatus(err)
		out.Cells++
		out.Evals++
		out.States++
		out.Outcome("grpc-status", fmt.Sprint(c, got))
		if got != want {
			out.Violate("C10|grpc-status", fmt.Sprintf("gRPC status %d (%s) is reported as %d, the documented mapping is %d", c, code, got, want), map[string]any{"tier": "grpc", "code": c})
		}
		// a wrapped status error must map the same way
		if err != nil {
			if got2 := grpcgun.ConvertGrpcStatus(fmt.Errorf("call failed: %w", err)); got2 != want && got2 != 500 {
				out.Violate("C10|grpc-status", fmt.Sprintf("wrapped gRPC status %d reported as %d", c, got2), map[string]any{"tier": "grpc", "code": c})
			}
		}
	}
	// a non-status error is "unknown"
	if got := grpcgun.ConvertGrpcStatus(errors.New("plain")); got != 500 {
		out.Violate("C10|grpc-status", fmt.Sprintf("non-status error reported as %d, documented: 500", got), map[string]any{"tier": "grpc", "code": "plain"})
	}
}

type failKind struct {
	name string
	err  func() error
	net  func(code int) bool
	desc string
}

type timeoutErr struct{}

func (timeoutErr) Error() string   { return "i/o timeout" }
func (timeoutErr) Timeout() bool   { return true }
func (timeoutErr) Temporary() bool { return true }

func wrapSys(op string, e syscall.Errno) error {
	return &url.Error{Op: "Get", URL: "http://x/", Err: &net.OpError{Op: op, Net: "tcp", Err: &os.SyscallError{Syscall: "connect", Err: e}}}
}

var failKinds = []failKind{
	{"refused", func() error { return wrapSys("dial", syscall.ECONNREFUSED) }, func(c int) bool { return c == int(syscall.ECONNREFUSED) }, "ECONNREFUSED"},
	{"reset", func() error { return wrapSys("read", syscall.ECONNRESET) }, func(c int) bool { return c == int(syscall.ECONNRESET) }, "ECONNRESET"},
	{"pipe", func() error { return wrapSys("write", syscall.EPIPE) }, func(c int) bool { return c == int(syscall.EPIPE) }, "EPIPE"},
	{"timeout", func() error { return &url.Error{Op: "Get", URL: "http://x/", Err: timeoutErr{}} }, func(c int) bool { return c == 110 }, "110"},
	{"timeout-bare", func() error { return timeoutErr{} }, func(c int) bool { return c == 110 }, "110"},
	{"ctx-deadline", func() error { return &url.Error{Op: "Get", URL: "http://x/", Err: context.DeadlineExceeded} }, func(c int) bool { return c == 110 }, "110"},
	{"unknown", func() error { return errors.New("boom") }, func(c int) bool { return c != 0 }, "non-zero"},
	{"eof", func() error { return &url.Error{Op: "Get", URL: "http://x/", Err: io.EOF} }, func(c int) bool { return c != 0 }, "non-zero"},
}

type failBody struct{ n int }

func (b *failBody) Read(p []byte) (int, error) {
	if b.n == 0 {
		b.n++
		copy(p, "partial")
		return 7, nil
	}
	return 0, &net.OpError{Op: "read", Net: "tcp", Err: &os.SyscallError{Syscall: "read", Err: syscall.ECONNRESET}}
}
func (b *failBody) Close() error { return nil }

// refTag is the documented tagging rule.
func refTag(ammoTag string, auto, noTagOnly bool, elems int, path string) string {
	tag := ammoTag
	if auto && (!noTagOnly || ammoTag == "") {
		// the first elems path elements
		parts := strings.Split(path, "/")
		// path starts with "/": parts[0] == ""
		n := elems + 1
		if n > len(parts) {
			n = len(parts)
		}
		at := strings.Join(parts[:n], "/")
		if tag == "" {
			tag = at
		} else {
			tag = tag + "|" + at
		}
	}
	if tag == "" {
		tag = "__EMPTY__"
	}
	return tag
}

type shot struct {
	Tier     string `json:"tier"`
	Status   int    `json:"status,omitempty"`
	Fail     string `json:"fail,omitempty"`
	BodyFail bool   `json:"body_fail,omitempty"`
	AmmoTag  string `json:"ammo_tag"`
	Auto     bool   `json:"auto"`
	NoTag    bool   `json:"no_tag_only"`
	Elems    int    `json:"elems"`
	Path     string `json:"path"`
	Debug    bool   `json:"debug,omitempty"`
	Trace    bool   `json:"trace,omitempty"`
	AnswLog  string `json:"answlog,omitempty"` // answer log filter: all | warning | error ("" = off)
	Post     bool   `json:"post,omitempty"`    // the request carries a body
}

func (s shot) Name() string {
	return fmt.Sprintf("status=%d fail=%s bodyfail=%v tag=%q auto=%v notagonly=%v elems=%d path=%s debug=%v trace=%v", s.Status, s.Fail, s.BodyFail, s.AmmoTag, s.Auto, s.NoTag, s.Elems, s.Path, s.Debug, s.Trace) + map[bool]string{true: " answlog=" + s.AnswLog}[s.AnswLog != ""] + map[bool]string{true: " post"}[s.Post]
}

func runShot(s shot) (verr error) {
	defer func() {
		if r := recover(); r != nil {
			verr = fmt.Errorf("PANIC: Shoot panicked: %v", r)
		}
	}()
	conf := phttp.DefaultHTTPGunConfig()
	conf.Target = "127.0.0.1:80"
	conf.TargetResolved = "127.0.0.1:80"
	conf.AutoTag = phttp.AutoTagConfig{Enabled: s.Auto, URIElements: s.Elems, NoTagOnly: s.NoTag}
	conf.HTTPTrace.DumpEnabled = s.Trace
	conf.HTTPTrace.TraceEnabled = s.Trace
	cl := &scriptClient{do: func(n int, req *http.Request) (*http.Response, error) {
		if s.Fail != "" {
			for _, fk := range failKinds {
				if fk.name == s.Fail {
					return nil, fk.err()
				}
			}
		}
		var body io.ReadCloser = io.NopCloser(strings.NewReader("ok"))
		if s.BodyFail {
			body = &failBody{}
		}
		return &http.Response{StatusCode: s.Status, Status: fmt.Sprintf("%d x", s.Status), Proto: "HTTP/1.1", ProtoMajor: 1, ProtoMinor: 1, Header: http.Header{}, Body: body, Request: req}, nil
	}}
	answLog := zap.NewNop()
	if s.AnswLog != "" {
		conf.AnswLog.Enabled = true
		conf.AnswLog.Filter = s.AnswLog
		answLog = zap.New(zapcore.NewCore(zapcore.NewConsoleEncoder(zap.NewDevelopmentEncoderConfig()), zapcore.AddSync(io.Discard), zapcore.DebugLevel))
	}
	g := phttp.NewBaseGun(func(phttp.ClientConfig, string) phttp.Client { return cl }, conf, answLog)
	agg := &recAgg{}
	if err := g.Bind(agg, gunDeps(0)); err != nil {
		return fmt.Errorf("HARNESS: bind: %v", err)
	}
	g.DebugLog = s.Debug
	req, _ := http.NewRequest("GET", s.Path, nil)
	if s.Post {
		req, _ = http.NewRequest("POST", s.Path, strings.NewReader("request body"))
	}
	g.Shoot(httpammo.NewGunAmmo(req, s.AmmoTag, 42))
	if len(agg.samples) != 1 {
		return fmt.Errorf("SAMPLES: %d samples reported for one request", len(agg.samples))
	}
	sm := agg.samples[0]
	netc := netsample.ZvErrno(sm)
	u, _ := url.Parse(s.Path)
	if want := refTag(s.AmmoTag, s.Auto, s.NoTag, s.Elems, u.Path); sm.Tags() != want {
		return fmt.Errorf("TAG: sample tag %q, documented rule gives %q", sm.Tags(), want)
	}
	if sm.ID() != 42 {
		return fmt.Errorf("ID: sample id %d, the ammo's id is 42", sm.ID())
	}
	switch {
	case s.Fail != "":
		if sm.ProtoCode() != 0 {
			return fmt.Errorf("PROTO: failed exchange (%s) reported protocol code %d", s.Fail, sm.ProtoCode())
		}
		for _, fk := range failKinds {
			if fk.name == s.Fail && !fk.net(netc) {
				return fmt.Errorf("NET: failed exchange (%s) reported net code %d, expected %s", s.Fail, netc, fk.desc)
			}
		}
	case s.BodyFail:
		if sm.ProtoCode() != s.Status {
			return fmt.Errorf("PROTO: status %d received, protocol code %d reported", s.Status, sm.ProtoCode())
		}
		if netc == 0 {
			return fmt.Errorf("NET: body read failed but net code is 0")
		}
	default:
		if sm.ProtoCode() != s.Status {
			return fmt.Errorf("PROTO: status %d received, protocol code %d reported", s.Status, sm.ProtoCode())
		}
		if netc != 0 {
			return fmt.Errorf("NET: response received but net code is %d", netc)
		}
	}
	return nil
}

func c10shots(thorough bool) []shot {
	var out []shot
	for st := 100; st <= 599; st++ {
		out = append(out, shot{Tier: "status", Status: st, AmmoTag: "t", Path: "/a"})
		if thorough || st%50 == 0 {
			out = append(out, shot{Tier: "status", Status: st, AmmoTag: "t", Path: "/a", Debug: true, Trace: true})
			out = append(out, shot{Tier: "status", Status: st, BodyFail: true, AmmoTag: "t", Path: "/a"})
			if st%50 == 0 {
				// the body breaks off while the gun is logging the answer (debug level reads it first)
				out = append(out, shot{Tier: "status", Status: st, BodyFail: true, AmmoTag: "t", Path: "/a", Debug: true})
				out = append(out, shot{Tier: "status", Status: st, BodyFail: true, AmmoTag: "t", Path: "/a", Debug: true, Trace: true})
			}
		}
	}
	for _, fk := range failKinds {
		for _, dbg := range []bool{false, true} {
			out = append(out, shot{Tier: "fail", Fail: fk.name, AmmoTag: "t", Path: "/a", Debug: dbg, Trace: dbg})
		}
		for _, flt := range []string{"all", "warning", "error"} {
			out = append(out, shot{Tier: "fail", Fail: fk.name, AmmoTag: "t", Path: "/a", AnswLog: flt, Post: flt == "all"})
		}
	}
	// the answer log (every filter) around each filter boundary: a logged answer is still one sample with the
	// received status, also when the body breaks off while or after it was dumped into the log
	for _, st := range []int{100, 200, 204, 301, 399, 400, 404, 499, 500, 503, 599} {
		for _, flt := range []string{"all", "warning", "error"} {
			for _, post := range []bool{false, true} {
				for _, bf := range []bool{false, true} {
					for _, dbg := range []bool{false, true} {
						out = append(out, shot{Tier: "answlog", Status: st, BodyFail: bf, AmmoTag: "t", Path: "/a", AnswLog: flt, Post: post, Debug: dbg, Trace: dbg && bf})
					}
				}
			}
		}
	}
	for _, tag := range []string{"", "t", "two words"} {
		for _, auto := range []bool{false, true} {
			for _, nto := range []bool{false, true} {
				for _, el := range []int{1, 2, 3} {
					for _, p := range []string{"/", "/a", "/a/b/c?x=1", "//", "/a/", "/a/b", "/a//b/c/d", "/%41/b?/c/d"} {
						for _, fail := range []string{"", "refused"} {
							out = append(out, shot{Tier: "tag", Status: 200, Fail: fail, AmmoTag: tag, Auto: auto, NoTag: nto, Elems: el, Path: p})
						}
					}
				}
			}
		}
	}
	return out
}

func classify(err error) string {
	s := err.Error()
	if i := strings.Index(s, ":"); i > 0 && i < 24 {
		return s[:i]
	}
	return "other"
}

func runC10(spec *hutil.Spec, out *hutil.Out) {
	if spec.Worker == 0 {
		c10grpc(out)
	}
	if spec.Worker == 1 || spec.Workers == 1 {
		// real guns over real sockets against scripted raw answers: the sample's protocol code is the status
		// received, its net code is non-zero exactly when the exchange failed (see wire19_test.go)
		runWire(spec, out)
	}
	for i, s := range c10shots(spec.Thorough()) {
		if !spec.Mine(i) || (spec.Only != "" && !strings.Contains(s.Name(), spec.Only)) {
			continue
		}
		out.Cells++
		out.Evals++
		out.States++
		out.Transitions++
		err := runShot(s)
		out.Outcome(s.Tier, s.Name())
		if err != nil {
			out.Violate("C10|http|"+s.Tier+"|"+classify(err), s.Name()+"\n"+err.Error(), s)
		}
		if i%599 == 0 {
			out.Sample(s)
		}
	}
}
