package h_cli

// Instrumented by vrewrite: mock provider and gun around a real engine, a real
// phout aggregator on an in-memory fs, and the real cli termination logic.

import (
	"context"
	"errors"
	"os"
	"time"

	"github.com/yandex/pandora/cli"
	"github.com/yandex/pandora/core"
	"github.com/yandex/pandora/core/aggregator/netsample"
	"github.com/yandex/pandora/core/engine"
	"github.com/yandex/pandora/zverif/vs"
	"github.com/yandex/pandora/zverif/vsignal"
	"go.uber.org/zap"
)

var errPoolFailed = errors.New("provider of the second pool failed")

type World struct {
	T0       time.Time
	Reported []uint64 // ids whose Report call has returned
	Shots    int
	ShotDur  time.Duration
	NextID   uint64
	Items    int // -1 unbounded

	SignalAt         time.Duration
	Signalled        bool
	SignalTime       time.Duration
	ReportedAtSignal int // len(Reported) when the signal was delivered

	WindowSignal   os.Signal // delivered (as an environment choice) while the failed run's results are being written
	Failed         bool // the second pool's provider has failed (the run fails by itself)
	ReportedAtFail int  // len(Reported) at that moment

	Exited        bool
	ExitAt        time.Duration
	ExitMsg       string
	ExitReported  int    // len(Reported) at the exit event
	ExitOutput    string // content of the result file at the exit event
	AwaitReturned bool
	Snapshot      func() string
}

type prov struct {
	w    *World
	sink chan core.Ammo
}

func (p *prov) Run(ctx context.Context, _ core.ProviderDeps) error {
	defer close(p.sink)
	for i := 0; p.w.Items < 0 || i < p.w.Items; i++ {
		select {
		case p.sink <- i:
		case <-ctx.Done():
			return nil
		}
	}
	return nil
}
func (p *prov) Acquire() (core.Ammo, bool) { a, ok := <-p.sink; return a, ok }
func (p *prov) Release(core.Ammo)          {}

// failProv is the provider of a second pool: it fails after a delay, which fails the whole run.
type failProv struct {
	w     *World
	after time.Duration
	sink  chan core.Ammo
}

func (p *failProv) Run(ctx context.Context, _ core.ProviderDeps) error {
	defer close(p.sink)
	select {
	case <-time.After(p.after):
		p.w.Failed = true
		p.w.ReportedAtFail = len(p.w.Reported)
		return errPoolFailed
	case <-ctx.Done():
		return nil
	}
}
func (p *failProv) Acquire() (core.Ammo, bool) { a, ok := <-p.sink; return a, ok }
func (p *failProv) Release(core.Ammo)          {}

// nullAgg is the second pool's aggregator.
type nullAgg struct{}

func (nullAgg) Run(ctx context.Context, _ core.AggregatorDeps) error { <-ctx.Done(); return nil }
func (nullAgg) Report(core.Sample)                                   {}

type gun struct {
	w    *World
	aggr core.Aggregator
	deps core.GunDeps
}

func (g *gun) Bind(a core.Aggregator, deps core.GunDeps) error { g.aggr, g.deps = a, deps; return nil }
func (g *gun) Shoot(core.Ammo) {
	w := g.w
	w.NextID++
	id := w.NextID
	s := netsample.Acquire("t")
	s.SetID(id)
	if w.ShotDur > 0 {
		select {
		case <-time.After(w.ShotDur):
		case <-g.deps.Ctx.Done():
			// a shot cut short by the stop of a run that failed by itself: the process is now waiting for the
			// results to be written out - an environment choice delivers a signal exactly here
			if w.Failed && w.WindowSignal != nil && !w.Signalled && vs.Choose(2, "signal-while-awaiting-tasks") == 1 {
				w.Signalled = true
				w.SignalTime = time.Since(w.T0)
				w.ReportedAtSignal = len(w.Reported)
				vsignal.Deliver(w.WindowSignal)
			}
		}
	}
	s.SetProtoCode(200)
	g.aggr.Report(s)
	w.Reported = append(w.Reported, id)
	w.Shots++
}

// Main is the body of cli.ReadConfigAndRunEngine after the engine has been built.
func Main(w *World, eng *engine.Engine, log *zap.Logger) {
	ctx, cancel := context.WithCancel(context.Background())
	defer cancel()
	errs := make(chan error)
	go cli.ZvRunEngine(ctx, eng, errs)
	cli.ZvAwait(eng, cancel, errs, log)
	w.AwaitReturned = true
	// the real main returns here and the process exits
	exitEvent(w, "main returned")
}

func exitEvent(w *World, msg string) {
	if w.Exited {
		return
	}
	w.Exited = true
	w.ExitAt = time.Since(w.T0)
	w.ExitMsg = msg
	w.ExitReported = len(w.Reported)
	w.ExitOutput = w.Snapshot()
}

// Signaller delivers the signal after the chosen fake delay, at whatever point it is scheduled.
func Signaller(w *World, sig os.Signal, second bool) {
	if w.SignalAt > 0 {
		time.Sleep(w.SignalAt)
	}
	vs.Yield("deliver-signal")
	if w.Exited {
		return
	}
	w.Signalled = true
	w.SignalTime = time.Since(w.T0)
	w.ReportedAtSignal = len(w.Reported)
	vsignal.Deliver(sig)
	if second {
		time.Sleep(time.Second)
		vs.Yield("deliver-second-signal")
		vsignal.Deliver(sig)
	}
}
