package cli

// Overlay-only export for the verification harnesses (not part of the repository).

func ZvReadConfig(args []string) *CliConfig { return readConfig(args) }

// ZvAwait and ZvRunEngine expose the process-level termination logic.
var (
	ZvAwait     = awaitPandoraTermination
	ZvRunEngine = runEngine
)
