package httpscenario

import (
	phttp "github.com/yandex/pandora/components/guns/http"
)

// Overlay-only export for the verification harnesses (not part of the repository).
func ZvNewGun(cc phttp.ClientConstructor, cfg phttp.GunConfig) *ScenarioGun {
	return newScenarioGun(cc, cfg, nil)
}
