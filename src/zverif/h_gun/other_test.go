package h_gun

import (
	"encoding/json"
	"fmt"
	"testing"

	"github.com/yandex/pandora/zverif/hutil"
)

func runOther(t *testing.T, spec *hutil.Spec, out *hutil.Out) {
	switch spec.Property {
	case "C09":
		runC09(spec, out)
		if spec.Worker == 0 && spec.Only == "" {
			runIdlePause(out)
		}
	case "C19":
		// C19's real-time part (the rest of C19 runs in h_scn / h_race)
		if spec.Worker == 0 {
			if spec.Only == "" {
				runStall(out)
			}
			runWire(spec, out)
		}
	default:
		out.HarnessErr = "unknown property " + spec.Property
	}
}

func replayOther(t *testing.T, spec *hutil.Spec, out *hutil.Out, tier string) {
	switch tier {
	case "c09":
		initPlugins()
		var w struct {
			Cell C09Cell `json:"cell"`
		}
		_ = json.Unmarshal(spec.Replay, &w)
		err := runC09Cell(w.Cell)
		fmt.Printf("cell %s\nfile %q\nverdict: %v\n", w.Cell.Name(), render(w.Cell.File.Format, w.Cell.File.Items, w.Cell.File.Layout), err)
		if err != nil {
			out.Violate("C09|replay", err.Error(), spec.Replay)
		}
	case "wire":
		var c wireCell
		_ = json.Unmarshal(spec.Replay, &c)
		err := runWireCell(c)
		fmt.Printf("cell %s\nverdict: %v\n", c.Name(), err)
		if err != nil {
			out.Violate("C19|replay", err.Error(), spec.Replay)
		}
	case "realtime":
		if spec.Property == "C19" {
			runStall(out)
		} else {
			runIdlePause(out)
		}
	default:
		out.HarnessErr = "unknown replay tier " + tier
	}
}
