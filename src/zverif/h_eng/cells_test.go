package h_eng

func once(n int) Sched             { return Sched{K: "once", A: float64(n)} }
func cst(r float64, d int64) Sched { return Sched{K: "const", A: r, D: d} }
func comp(ch ...Sched) Sched       { return Sched{K: "comp", Ch: ch} }
func unl(d int64) Sched            { return Sched{K: "unlimited", D: d} }
func istep(a, b, c, d int64) Sched {
	return Sched{K: "istep", A: float64(a), B: float64(b), C: c, D: d}
}

func cells(prop string, thorough bool) []Cfg {
	switch prop {
	case "C03":
		return cellsC03(thorough)
	case "C04":
		return cellsC04(thorough)
	case "C05":
		return cellsC05(thorough)
	case "C12":
		return cellsC12(thorough)
	}
	panic("no cells for " + prop)
}

func cellsC03(thorough bool) []Cfg {
	var out []Cfg
	profiles := []Sched{once(1), once(2), once(3), cst(2, 1000), comp(once(1), cst(0, 1000), once(1))}
	ammo := []int{0, 1, 2, 3, 5, -1}
	for n := 1; n <= 3; n++ {
		for _, per := range []bool{false, true} {
			for _, p := range profiles {
				for _, a := range ammo {
					for _, disc := range []bool{true, false} {
						for _, shot := range []int64{0, 3000} {
							c := Cfg{Prop: "C03", Startup: once(n), RPS: p, PerInst: per, Ammo: a, Discard: disc, ShotMs: []int64{shot}, Bound: 1}
							if thorough && n <= 2 {
								c.Bound = 2
							}
							out = append(out, c)
						}
					}
				}
			}
		}
	}
	// staggered instance start (start-up profile still running when ammo or tokens run out)
	for _, st := range []Sched{cst(2, 1000), comp(once(1), cst(0, 1000), once(1)), istep(1, 3, 1, 500)} {
		for _, per := range []bool{false, true} {
			for _, p := range []Sched{cst(2, 1000), cst(2, 3000), comp(once(1), cst(0, 1500), once(2))} {
				for _, a := range []int{1, 2, 3, -1} {
					for _, shot := range []int64{0, 700} {
						out = append(out, Cfg{Prop: "C03", Startup: st, RPS: p, PerInst: per, Ammo: a, Discard: true, ShotMs: []int64{shot}, Bound: 1})
					}
				}
			}
		}
	}
	// several pools on one engine (shared profiles): the counters are the engine's, each pool accounts for its own
	// ammo; the later pools start shooting at once, or after a warm-up during which the first pool has already fired
	for _, np := range []int{2, 3} {
		for _, ow := range []int64{0, 700, 2500} {
			for _, p := range []Sched{once(2), cst(2, 1000)} {
				for _, a := range []int{1, 3, -1} {
					for _, n := range []int{1, 2} {
						if np == 3 && (n == 2 || a == 3) {
							continue
						}
						b := 1
						if np == 3 || n == 2 {
							b = 0
						}
						out = append(out, Cfg{Prop: "C03", Startup: once(n), RPS: p, Ammo: a, Discard: true, ShotMs: []int64{0}, Bound: b, Pools: np, OtherWarmMs: ow})
					}
				}
			}
		}
	}
	var res []Cfg
	for _, c := range out {
		if c.Prop != "" {
			res = append(res, c)
		}
	}
	return res
}

func seqs(alpha []int64, maxLen int) [][]int64 {
	var out [][]int64
	var rec func(cur []int64)
	rec = func(cur []int64) {
		if len(cur) > 0 {
			out = append(out, append([]int64(nil), cur...))
		}
		if len(cur) == maxLen {
			return
		}
		for _, a := range alpha {
			rec(append(cur, a))
		}
	}
	rec(nil)
	return out
}

func cellsC04(thorough bool) []Cfg {
	var out []Cfg
	alpha := []int64{0, 100, 1900, 2100, 5000}
	maxLen := 3
	profiles := []Sched{cst(2, 3000), cst(5, 3000), cst(10, 2000), once(5),
		comp(once(2), cst(0, 3000), once(2)), cst(0.25, 8000), comp(cst(2, 1000), cst(0, 2500), cst(2, 1000))}
	if thorough {
		alpha = []int64{0, 100, 900, 1900, 2000, 2100, 5000}
		maxLen = 4
		profiles = append(profiles, cst(1, 5000), cst(10, 10000), comp(cst(2, 2000), cst(5, 2000)))
	}
	for _, p := range profiles {
		for _, h := range seqs(alpha, maxLen) {
			for _, disc := range []bool{true, false} {
				out = append(out, Cfg{Prop: "C04", Startup: once(1), RPS: p, Ammo: -1, Discard: disc, ShotMs: h, Bound: 0})
			}
		}
	}
	// answers that arrive a few microseconds before the next token is due: the instance has to sleep
	// for that remainder, however short
	for _, p := range []Sched{cst(2, 3000), cst(10, 2000)} {
		for _, h := range [][]int64{{500}, {100}, {1000}, {100, 400}} {
			for _, skew := range []int64{1, 50, 99, 900} {
				out = append(out, Cfg{Prop: "C04", Startup: once(1), RPS: p, Ammo: -1, Discard: true, ShotMs: h, SkewUs: skew, Bound: 0})
			}
		}
	}
	// the run is cancelled at token instants and between them: a token that is in time is fired or
	// left alone, never reported as discarded
	for _, p := range []Sched{cst(2, 3000), comp(once(2), cst(0, 1000), once(2))} {
		for _, disc := range []bool{true, false} {
			for _, h := range [][]int64{{0}, {100}} {
				out = append(out, Cfg{Prop: "C04", Startup: once(1), RPS: p, Ammo: -1, Discard: disc, ShotMs: h, Bound: 1, Cancel: true, CancelMs: []int64{0, 500, 750, 1000}})
			}
		}
	}
	// several instances: interleavings and stalls (ADVANCE) with preemption bound 1
	ml := 2
	for _, n := range []int{2, 3} {
		for _, p := range []Sched{cst(2, 3000), cst(5, 2000), comp(once(2), cst(0, 3000), once(2))} {
			for _, h := range seqs([]int64{0, 1900, 2100, 5000}, ml) {
				for _, disc := range []bool{true, false} {
					if n == 3 && len(h) > 1 && !thorough {
						continue
					}
					out = append(out, Cfg{Prop: "C04", Startup: once(n), RPS: p, Ammo: -1, Discard: disc, ShotMs: h, Bound: 1, Advance: true, AdvanceMs: 2500})
				}
			}
		}
	}
	return out
}

func cellsC05(thorough bool) []Cfg {
	var out []Cfg
	base := func() Cfg {
		return Cfg{Prop: "C05", Startup: once(2), RPS: once(3), Ammo: 3, ShotMs: []int64{0}, Bound: 1, Closable: true}
	}
	faults := []Fault{
		{}, {"prov", 0}, {"prov", 1}, {"prov", 2}, {"provlate", 0}, {"aggstart", 0}, {"aggend", 0},
		{"gun", 0}, {"gun", 1}, {"gun", 2}, {"bind", 1}, {"bind", 2}, {"warm", 0}, {"sched", 0}, {"panic", 0}, {"panic", 2},
	}
	for _, f := range faults {
		for _, per := range []bool{false, true} {
			c := base()
			c.Fault = f
			c.PerInst = per
			if f.Kind == "sched" && per {
				for _, pos := range []int{0, 1} {
					c2 := c
					c2.Fault.Pos = pos
					out = append(out, c2)
				}
				continue
			}
			out = append(out, c)
			// the same with more ammo than tokens, and with a slow shot
			c3 := c
			c3.Ammo = -1
			c3.ShotMs = []int64{1000}
			out = append(out, c3)
		}
	}
	// the component's own failure is a timeout of its own (context.DeadlineExceeded), also at the very end of the run
	for _, f := range []Fault{{"prov", 1}, {"provlate", 0}, {"aggstart", 0}, {"aggend", 0}} {
		for _, per := range []bool{false, true} {
			c := base()
			c.Fault = f
			c.PerInst = per
			c.CauseDeadline = true
			out = append(out, c)
		}
	}
	// guns with a successful warm-up (shared deps) under the common plans
	for _, f := range []Fault{{}, {"prov", 1}, {"panic", 1}, {"gun", 2}, {"aggend", 0}} {
		c := base()
		c.Fault = f
		c.WarmUp = true
		out = append(out, c)
	}
	// two components failing in the same run: nobody may stay blocked handing over the second error
	for _, ff := range [][2]Fault{{{"prov", 1}, {"aggstart", 0}}, {{"panic", 1}, {"prov", 1}}, {{"aggstart", 0}, {"provlate", 0}}, {{"panic", 1}, {"aggend", 0}}, {{"prov", 0}, {"panic", 0}}, {{"aggstart", 0}, {"gun", 1}}} {
		for _, per := range []bool{false, true} {
			c := base()
			c.Fault, c.Fault2 = ff[0], ff[1]
			c.PerInst = per
			out = append(out, c)
		}
	}
	// a warm-up that takes 5 s and ignores the context; the caller cancels before, during and after it
	for _, per := range []bool{false, true} {
		c := base()
		c.WarmUp = true
		c.WarmMs = 5000
		c.Cancel = true
		c.CancelMs = []int64{0, 1000, 6000}
		c.PerInst = per
		out = append(out, c)
	}
	// cancellation at every phase
	for _, shot := range []int64{0, 600000} {
		for _, per := range []bool{false, true} {
			c := base()
			c.Cancel = true
			c.CancelMs = []int64{0, 300000}
			c.ShotMs = []int64{shot}
			c.PerInst = per
			out = append(out, c)
			c.Ammo = -1
			c.RPS = cst(1, 3000)
			out = append(out, c)
		}
	}
	// an early cancel with two deviations (the await goroutine finishing before the pool looks at its result)
	for _, per := range []bool{false, true} {
		c := base()
		c.Cancel = true
		c.CancelMs = []int64{0}
		c.Startup = once(1)
		c.PerInst = per
		c.Bound = 2
		out = append(out, c)
	}
	// cancel combined with a fault
	for _, f := range []Fault{{"prov", 1}, {"aggend", 0}, {"panic", 1}} {
		c := base()
		c.Fault = f
		c.Cancel = true
		c.CancelMs = []int64{0}
		out = append(out, c)
	}
	// two pools: the first one faulty or healthy
	for _, f := range []Fault{{}, {"prov", 1}, {"aggend", 0}, {"gun", 1}, {"sched", 0}, {"warm", 0}} {
		c := base()
		c.Pools = 2
		c.Startup = once(1)
		c.RPS = once(2)
		c.Ammo = 2
		c.Fault = f
		out = append(out, c)
		if f.Kind != "" {
			// the healthy pool is still in the middle of a long paced profile when the first one fails
			c.OtherLong = true
			out = append(out, c)
		}
	}
	for _, f := range []Fault{{"prov", 1}, {"aggstart", 0}, {"panic", 1}, {"bind", 1}} {
		c := base()
		c.Pools = 3
		c.Startup = once(1)
		c.RPS = once(2)
		c.Ammo = 2
		c.Fault = f
		c.OtherLong = true
		c.Bound = 0
		out = append(out, c)
	}
	if thorough {
		n := len(out)
		for i := 0; i < n; i++ {
			if out[i].Pools == 0 {
				c := out[i]
				c.Bound = 2
				c.Startup = once(1)
				out = append(out, c)
			}
		}
	}
	return out
}

func cellsC12(thorough bool) []Cfg {
	var out []Cfg
	startups := []Sched{once(1), once(2), once(3), cst(2, 1000), istep(1, 3, 1, 1000), comp(once(1), cst(0, 1000), once(2)),
		istep(1, 6, 4, 1000), istep(0, 2, 1, 1000), comp(cst(0, 1000), once(2)), istep(2, 5, 2, 500), istep(3, 1, 1, 500),
		comp(once(1), cst(0, 400), cst(0, 700), once(1))} // two pauses in a row
	type rpsV struct {
		s    Sched
		shot int64
	}
	rps := []rpsV{{unl(3000), 500}, {cst(2, 500), 0}, {cst(2, 1500), 0}, {cst(2, 4000), 0}, {once(2), 0},
		// a profile of several segments: the switch from one segment to the next is not the end of the profile
		{comp(once(1), cst(2, 1000)), 0}, {comp(once(2), cst(0, 500), once(1)), 0},
		// known part first, then a part of unknown length: the profile is not over when the known part is drained
		{comp(once(1), unl(2000)), 500}}
	for _, st := range startups {
		for _, rv := range rps {
			for _, per := range []bool{false, true} {
				for _, ammo := range []int{-1, 0, 2, 5} {
					c := Cfg{Prop: "C12", Startup: st, RPS: rv.s, PerInst: per, Ammo: ammo, ShotMs: []int64{rv.shot}, Bound: 1}
					if !thorough && (len(out)%2 == 1) && ammo != 2 {
						out = append(out, Cfg{})
						continue
					}
					out = append(out, c)
				}
			}
		}
		// cancellation relative to the startup profile, instance creation failure
		for _, per := range []bool{false, true} {
			c := Cfg{Prop: "C12", Startup: st, RPS: cst(2, 4000), PerInst: per, Ammo: -1, ShotMs: []int64{0}, Bound: 1, Cancel: true, CancelMs: []int64{0, 500, 1500}}
			out = append(out, c)
			for _, pos := range []int{1, 2} {
				c := Cfg{Prop: "C12", Startup: st, RPS: cst(2, 4000), PerInst: per, Ammo: -1, ShotMs: []int64{0}, Bound: 1, Fault: Fault{"gun", pos}}
				out = append(out, c)
			}
		}
	}
	// a start-up stage whose rate x duration is not a whole number, followed by another stage: the next stage
	// begins when the stage's duration is over, not at its last token
	for _, st := range []Sched{comp(cst(0.5, 3000), once(2)), comp(once(1), cst(2, 1250), once(1))} {
		for _, ammo := range []int{-1, 2} {
			out = append(out, Cfg{Prop: "C12", Startup: st, RPS: cst(2, 6000), Ammo: ammo, ShotMs: []int64{0}, Bound: 1})
		}
	}
	// a provider that queues all its ammo at once (its Run returns at t=0): later startup tokens still
	// become instances as long as ammo and RPS tokens remain
	for _, st := range []Sched{comp(once(1), cst(0, 1000), once(1)), istep(1, 3, 1, 500), cst(2, 1500)} {
		for _, per := range []bool{false, true} {
			out = append(out, Cfg{Prop: "C12", Startup: st, RPS: cst(2, 4000), PerInst: per, Ammo: 6, ShotMs: []int64{0}, Bound: 1, ProvBuf: 100})
		}
	}
	// two preemptions around the switch between the segments of a shared profile
	for _, st := range []Sched{once(2), once(3), comp(once(2), cst(0, 1000), once(1)), comp(once(2), cst(0, 400), once(1), cst(0, 1000), once(1))} {
		for _, rp := range []Sched{comp(once(1), cst(2, 3000)), comp(once(1), once(2))} {
			b := 1
			if thorough {
				b = 2
			}
			out = append(out, Cfg{Prop: "C12", Startup: st, RPS: rp, Ammo: -1, ShotMs: []int64{0}, Bound: b})
		}
	}
	var res []Cfg
	for _, c := range out {
		if c.Prop != "" {
			res = append(res, c)
		}
	}
	return res
}
