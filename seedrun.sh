#!/bin/bash
# usage: seedrun.sh <patch> <check id>...  : apply the patch to /repo, run the quick checks, revert. prints DETECTED/MISSED per check
p=$1; shift
cd /verif
git -C /repo apply "$p" || { echo "APPLY-FAIL $p"; exit 2; }
for id in "$@"; do
  out=$(timeout 1500 ./vcheck run "$id" --tier quick 2>&1); code=$?
  if [ $code -eq 1 ] && echo "$out" | grep -q "^VIOLATION property=$id"; then
    echo "DETECTED $p by $id: $(echo "$out" | grep -m1 '  key=')"
  else
    echo "MISSED $p by $id (exit $code): $(echo "$out" | tail -2 | tr '\n' ' ')"
  fi
done
git -C /repo checkout -- . ; git -C /repo clean -fdq
