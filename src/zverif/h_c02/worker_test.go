package h_c02

import (
	"encoding/json"
	"fmt"
	"sort"
	"strings"
	"testing"
	"time"

	"github.com/yandex/pandora/core"
	"github.com/yandex/pandora/core/coreutil"
	"github.com/yandex/pandora/zverif/hutil"
	"github.com/yandex/pandora/zverif/vs"
)

// Cell is one (tree, program) configuration.
type Cell struct {
	Tree     Tree     `json:"tree"`
	Prog     []string `json:"prog"` // per thread: string over N (Next) L (Left) S (Sleep 1s)
	Explicit bool     `json:"explicit_start"`
	Callback bool     `json:"callback"`
	Bound    int      `json:"bound"`
}

func (c Cell) Name() string {
	return fmt.Sprintf("%s|%s|start=%v|cb=%v", c.Tree, strings.Join(c.Prog, ","), c.Explicit, c.Callback)
}

type opRec struct {
	Th       int
	Op       byte
	CallS    int
	RetS     int
	TCall    time.Time
	TRet     time.Time
	Tok      time.Time
	Ok       bool
	Left     int
	Panic    string
	finished bool
}

func leaves(thorough bool) []Tree {
	l := []Tree{
		{Kind: "once", A: 1}, {Kind: "once", A: 2}, {Kind: "once", A: 0},
		{Kind: "const", A: 2, D: 1000}, {Kind: "const", A: 0, D: 1000},
		{Kind: "unlimited", D: 1500},
		{Kind: "line", A: 0, B: 4, D: 1000},
		{Kind: "istep", A: 1, B: 3, C: 1, D: 1000},
		{Kind: "istep", A: 0, B: 5, C: 2, D: 500}, // from 0, range not divisible by the step
	}
	if thorough {
		l = append(l, Tree{Kind: "step", A: 1, B: 2, C: 1, D: 1000}, Tree{Kind: "once", A: 3})
	}
	return l
}

func comp(ch ...Tree) Tree { return Tree{Kind: "comp", Ch: ch} }

func trees(thorough bool) []Tree {
	ls := leaves(thorough)
	var out []Tree
	out = append(out, ls...)
	// all ordered pairs
	for _, a := range ls {
		for _, b := range ls {
			out = append(out, comp(a, b))
		}
	}
	// triples around the unknown-length / empty leaves, nesting depth 2
	o1, o2, o0 := ls[0], ls[1], ls[2]
	c2, c0, un := ls[3], ls[4], ls[5]
	tri := [][]Tree{
		{o1, un, o2}, {o1, c0, o1}, {un, o1, un}, {o0, o0, o1}, {o1, o2, un}, {c2, un, o1}, {un, c0, o2},
	}
	for _, t := range tri {
		out = append(out, comp(t...))
	}
	out = append(out,
		comp(comp(o1, un), o2), comp(o1, comp(un, o2)), comp(comp(o1, o1), comp(o2, o0)),
		comp(o1, comp(o0, o0), o1), comp(comp(o1, c0), comp(o1, un)), comp(o2, comp(o1, un)),
	)
	// an unlimited part shorter than the programs' sleep: its window is over when the caller wakes up
	un5 := Tree{Kind: "unlimited", D: 500}
	// instance_step whose 'to' lies below 'from' (accepted by validation): 'from' tokens at the start, nothing else
	isDown := Tree{Kind: "istep", A: 3, B: 1, C: 2, D: 500}
	out = append(out, isDown, comp(o1, isDown), comp(isDown, c0, o1))
	// several token-less parts in a row, each with a duration of its own
	c07 := Tree{Kind: "const", A: 0, D: 700}
	out = append(out, comp(o1, c0, c07, o1), comp(o0, c0, o1), comp(c0, c07, o2), comp(o1, c07, o0, c0, o1))
	out = append(out, comp(o1, un5, o2), comp(un5, o2), comp(o1, un5), comp(comp(o1, un5), o2), comp(o2, un5, o1), comp(o1, comp(un5, o1)), comp(c0, un5, o1))
	if thorough {
		for _, a := range []Tree{o1, un, c0} {
			for _, b := range []Tree{o1, un, o0} {
				for _, c := range []Tree{o2, un, c2} {
					out = append(out, comp(a, b, c), comp(comp(a, b), c), comp(a, comp(b, c)))
				}
			}
		}
	}
	return out
}

func programs(thorough bool) [][]string {
	two := []string{"NN", "NL", "LN", "NNL", "NSN", "LSL"}
	if thorough {
		two = append(two, "NNN", "SNL")
	}
	var out [][]string
	for i, a := range two {
		for _, b := range two[i:] {
			out = append(out, []string{a, b})
		}
	}
	three := []string{"NN", "NL", "LN"}
	if thorough {
		three = append(three, "NSL", "SN")
	}
	for _, a := range three {
		for _, b := range three {
			for _, c := range three {
				if a <= b && b <= c {
					out = append(out, []string{a, b, c})
				}
			}
		}
	}
	if thorough {
		out = append(out, []string{"NNNN", "LNLN"}, []string{"NLSN", "SLNL"}, []string{"NNSL", "LSNN"})
	}
	return out
}

func cells(thorough bool) []Cell {
	var out []Cell
	bound := 2
	if thorough {
		bound = 3
	}
	ps := programs(thorough)
	for ti, t := range trees(thorough) {
		for pi, p := range ps {
			// spread start mode and the callback wrapper deterministically over the matrix
			c := Cell{Tree: t, Prog: p, Explicit: (ti+pi)%3 != 0, Callback: (ti+2*pi)%4 == 0, Bound: bound}
			if len(p) > 2 {
				c.Bound = bound - 1
			}
			out = append(out, c)
			if thorough {
				c.Explicit = !c.Explicit
				c.Callback = !c.Callback
				out = append(out, c)
			}
		}
	}
	return out
}

type run struct {
	cell    Cell
	ops     []*opRec
	clock   int
	cbCount int
	cbEnd   int
	t0      time.Time
}

func (r *run) scenario(x *vs.X) func(end, msg string) error {
	c := r.cell
	r.ops = nil
	r.clock = 0
	r.cbCount = 0
	r.cbEnd = -1
	r.t0 = time.Now()
	var s core.Schedule = c.Tree.Build()
	if c.Callback {
		s = coreutil.NewCallbackOnFinishSchedule(s, func() {
			r.cbCount++
			vs.Yield("cb")
			r.clock++
			r.cbEnd = r.clock
		})
	}
	if c.Explicit {
		s.Start(r.t0)
	}
	for th, prog := range c.Prog {
		th, prog := th, prog
		recs := make([]*opRec, len(prog))
		for i := range prog {
			recs[i] = &opRec{Th: th, Op: prog[i]}
			if prog[i] != 'S' {
				r.ops = append(r.ops, recs[i])
			}
		}
		vs.Go(fmt.Sprintf("caller%d", th), func() {
			for i := range prog {
				o := recs[i]
				if o.Op == 'S' {
					vs.Sleep(time.Second)
					continue
				}
				vs.Yield("call")
				r.clock++
				o.CallS = r.clock
				o.TCall = time.Now()
				func() {
					defer func() {
						if p := recover(); p != nil {
							o.Panic = fmt.Sprint(p)
						}
					}()
					if o.Op == 'N' {
						o.Tok, o.Ok = s.Next()
					} else {
						o.Left = s.Left()
					}
				}()
				r.clock++
				o.RetS = r.clock
				o.TRet = time.Now()
				o.finished = true
			}
		})
	}
	return func(end, msg string) error { return r.check(end, msg) }
}

func (r *run) describe() string {
	var b strings.Builder
	ops := append([]*opRec(nil), r.ops...)
	sort.Slice(ops, func(i, j int) bool { return ops[i].CallS < ops[j].CallS })
	for _, o := range ops {
		rel := func(t time.Time) string { return t.Sub(r.t0).String() }
		switch {
		case !o.finished:
			fmt.Fprintf(&b, "  T%d %c unfinished\n", o.Th, o.Op)
		case o.Panic != "":
			fmt.Fprintf(&b, "  T%d %c [%d,%d] PANIC %s\n", o.Th, o.Op, o.CallS, o.RetS, o.Panic)
		case o.Op == 'N':
			fmt.Fprintf(&b, "  T%d Next [%d,%d] at %s..%s -> (%s,%v)\n", o.Th, o.CallS, o.RetS, rel(o.TCall), rel(o.TRet), rel(o.Tok), o.Ok)
		default:
			fmt.Fprintf(&b, "  T%d Left [%d,%d] at %s..%s -> %d\n", o.Th, o.CallS, o.RetS, rel(o.TCall), rel(o.TRet), o.Left)
		}
	}
	if r.cell.Callback {
		fmt.Fprintf(&b, "  onFinish calls=%d endStamp=%d\n", r.cbCount, r.cbEnd)
	}
	return b.String()
}

func (r *run) outcome() string {
	var b strings.Builder
	for _, o := range r.ops {
		if o.Op == 'N' {
			fmt.Fprintf(&b, "%d:%d:%v;", o.Th, o.Tok.Sub(r.t0), o.Ok)
		} else {
			fmt.Fprintf(&b, "%d:L%d;", o.Th, o.Left)
		}
	}
	return b.String()
}

const tol = time.Microsecond

func absd(d time.Duration) time.Duration {
	if d < 0 {
		return -d
	}
	return d
}

func (r *run) check(end, msg string) error {
	if end != vs.EndComplete {
		return fmt.Errorf("execution ended with %s (%s)\n%s", end, msg, r.describe())
	}
	for _, o := range r.ops {
		if o.Panic != "" {
			return fmt.Errorf("panic in %c: %s\n%s", o.Op, o.Panic, r.describe())
		}
		if !o.finished {
			return fmt.Errorf("operation did not return\n%s", r.describe())
		}
	}
	// per-caller monotonicity of token times
	last := map[int]time.Time{}
	byThread := append([]*opRec(nil), r.ops...)
	sort.SliceStable(byThread, func(i, j int) bool { return byThread[i].CallS < byThread[j].CallS })
	for _, o := range byThread {
		if o.Op != 'N' {
			continue
		}
		// a token older than both the caller's previous token and the present is out of
		// order; a token equal to "now" (unlimited part drawn ahead of time by a caller
		// that does not wait for its previous token) is not (see DESIGN.md Corrections)
		if l, ok := last[o.Th]; ok && o.Tok.Before(l.Add(-tol)) && o.Tok.Before(o.TCall.Add(-tol)) {
			return fmt.Errorf("times returned to caller %d decrease\n%s", o.Th, r.describe())
		}
		last[o.Th] = o.Tok
	}
	// callback
	if r.cell.Callback {
		if r.cbCount > 1 {
			return fmt.Errorf("onFinish called %d times\n%s", r.cbCount, r.describe())
		}
		for _, o := range r.ops {
			sawFinish := (o.Op == 'N' && !o.Ok) || (o.Op == 'L' && o.Left == 0)
			if sawFinish && (r.cbCount != 1 || r.cbEnd < 0 || r.cbEnd > o.RetS) {
				return fmt.Errorf("a caller observed the finish before onFinish completed (calls=%d)\n%s", r.cbCount, r.describe())
			}
		}
	}
	// linearizability against the sequential reference model
	if err := r.linearize(); err != nil {
		return fmt.Errorf("%v\n%s", err, r.describe())
	}
	return nil
}

type linKey struct {
	mask uint32
	c    int
	i    int64
	st   bool
	s0   int64
	now  int64
}

func (r *run) linearize() error {
	m := &model{parts: r.cell.Tree.Flatten()}
	ops := r.ops
	n := len(ops)
	// candidate instants
	instSet := map[int64]struct{}{}
	for _, o := range ops {
		instSet[o.TCall.UnixNano()] = struct{}{}
		instSet[o.TRet.UnixNano()] = struct{}{}
	}
	var inst []int64
	for k := range instSet {
		inst = append(inst, k)
	}
	sort.Slice(inst, func(i, j int) bool { return inst[i] < inst[j] })
	failed := map[linKey]struct{}{}
	var why string
	var rec func(mask uint32, st mstate, now int64) bool
	rec = func(mask uint32, st mstate, now int64) bool {
		if mask == uint32(1)<<n-1 {
			return true
		}
		k := linKey{mask, st.c, st.i, st.started, st.s0.UnixNano(), now}
		if _, bad := failed[k]; bad {
			return false
		}
		for a := 0; a < n; a++ {
			if mask&(1<<a) != 0 {
				continue
			}
			o := ops[a]
			// minimal: no unlinearized op returned before o was called
			minimal := true
			for b := 0; b < n; b++ {
				if b != a && mask&(1<<b) == 0 && ops[b].RetS < o.CallS {
					minimal = false
					break
				}
			}
			if !minimal {
				continue
			}
			for _, t := range inst {
				if t < now || t < o.TCall.UnixNano() || t > o.TRet.UnixNano() {
					continue
				}
				tt := time.Unix(0, t)
				if o.Op == 'N' {
					st2, tok, ok, isNow := m.next(st, tt)
					if ok != o.Ok {
						why = fmt.Sprintf("Next of caller %d returned ok=%v where the model gives ok=%v", o.Th, o.Ok, ok)
						continue
					}
					if isNow {
						if !o.Tok.Equal(tt) {
							continue
						}
					} else if absd(o.Tok.Sub(tok)) > tol {
						why = fmt.Sprintf("Next of caller %d returned %s, model token/finish is %s", o.Th, o.Tok.Sub(r.t0), tok.Sub(r.t0))
						continue
					}
					if rec(mask|1<<a, st2, t) {
						return true
					}
				} else {
					rem, strict, grey := m.left(st, tt)
					good := false
					switch {
					case strict:
						good = o.Left < 0
					case grey:
						good = o.Left < 0 || int64(o.Left) == rem
					default:
						good = int64(o.Left) == rem
					}
					if !good {
						why = fmt.Sprintf("Left of caller %d returned %d; model: remaining=%d unknown=%v", o.Th, o.Left, rem, strict)
						continue
					}
					if rec(mask|1<<a, st, t) {
						return true
					}
				}
			}
		}
		failed[k] = struct{}{}
		return false
	}
	st := mstate{}
	if r.cell.Explicit {
		st.started = true
		st.s0 = r.t0
	}
	if rec(0, st, 0) {
		return nil
	}
	return fmt.Errorf("history is not linearizable w.r.t. the schedule model (last mismatch: %s)", why)
}

type replay struct {
	Cell    Cell  `json:"cell"`
	Choices []int `json:"choices"`
}

func classify(err error) string {
	s := err.Error()
	switch {
	case strings.Contains(s, "panic"):
		return "panic"
	case strings.Contains(s, "Left of caller"):
		return "left"
	case strings.Contains(s, "onFinish"):
		return "callback"
	case strings.Contains(s, "ended with"):
		return "termination"
	case strings.Contains(s, "decrease"):
		return "order"
	}
	return "tokens"
}

func treeClass(t Tree) string {
	// class of the tree for known-finding keys: does an unknown-length part follow a known one?
	ps := t.Flatten()
	seenKnown := false
	for _, p := range ps {
		if p.unlimited && seenKnown {
			return "unknown-after-known"
		}
		if !p.unlimited {
			seenKnown = true
		}
	}
	return "other"
}

func TestWorker(t *testing.T) {
	spec, out := hutil.Load()
	if spec == nil {
		t.Skip("no VERIF_SPEC")
	}
	defer out.Save()
	if spec.Replay != nil {
		var rp replay
		if err := json.Unmarshal(spec.Replay, &rp); err != nil {
			t.Fatal(err)
		}
		r := &run{cell: rp.Cell}
		e := vs.NewExplorer(t, vs.Opts{Bound: rp.Cell.Bound}, r.scenario)
		res := e.RunOne(rp.Choices, -1, nil)
		fmt.Printf("cell: %s\nend: %s %s\n%s", rp.Cell.Name(), res.End, res.Msg, r.describe())
		for i, p := range res.Points {
			fmt.Printf("  point %d kind=%c n=%d chosen=%d thread=%d\n", i, p.Kind, p.N, p.Chosen, p.Thread)
		}
		if res.Err != nil {
			out.Violate("C02|replay", res.Err.Error(), rp)
		}
		return
	}
	all := cells(spec.Thorough())
	for ci, c := range all {
		if !spec.Mine(ci) || (spec.Only != "" && !strings.Contains(c.Name(), spec.Only)) {
			continue
		}
		if out.OverBudget() {
			break
		}
		r := &run{cell: c}
		e := vs.NewExplorer(t, vs.Opts{Bound: c.Bound}, r.scenario)
		e.RealStop = out.Deadline()
		e.OnExec = func(res *vs.Result) { out.Outcome(c.Name(), r.outcome()) }
		complete := e.Explore()
		out.Cells++
		out.Evals += int64(e.Execs)
		out.States += int64(e.Nodes)
		out.Transitions += int64(e.Steps)
		out.Extra["pruned"] += int64(e.Pruned)
		out.Extra["leaked_goroutines"] += int64(e.Leaked)
		if int64(e.MaxDepth) > out.Extra["max_depth"] {
			out.Extra["max_depth"] = int64(e.MaxDepth)
		}
		if !complete || e.CapHit != "" {
			out.Cap("cell %s: %s (bound completed %d)", c.Name(), e.CapHit, e.BoundDone)
		}
		if e.HarnessErr {
			out.HarnessErr = e.Violation.Err.Error()
			return
		}
		if v := e.Violation; v != nil {
			// re-execute 5x from the recorded choices
			rp := replay{Cell: c, Choices: v.Choices}
			flaky := false
			for k := 0; k < 5; k++ {
				res := e.RunOne(v.Choices, -1, nil)
				if res.Err == nil || res.Err.Error() != v.Err.Error() {
					flaky = true
				}
			}
			key := fmt.Sprintf("C02|%s|%s", classify(v.Err), treeClass(c.Tree))
			out.Violate(key, fmt.Sprintf("%s (preemptions=%d)\n%s", c.Name(), v.Preempts, v.Err.Error()), rp)
			if flaky {
				out.Violations[len(out.Violations)-1].Flaky = true
			}
		}
		if ci%50 == 0 {
			out.Sample(map[string]any{"cell": c.Name(), "executions": e.Execs, "choice_points_max": e.MaxDepth, "ends": e.Ends})
		}
	}
}
