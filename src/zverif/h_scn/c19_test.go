package h_scn

// C19: whatever the target answers, the run goes on. Response histories are
// enumerated (default history and every single/double deviation from it) and
// played by a scripted Client to the real guns inside a real Engine.Run with
// one instance, under the vs scheduler (a hang is a verdict).

import (
	"context"
	"crypto/tls"
	"errors"
	"fmt"
	"io"
	"net"
	"net/http"
	"os"
	"strings"
	"syscall"
	"time"

	"github.com/spf13/afero"
	phttp "github.com/yandex/pandora/components/guns/http"
	httpscenario "github.com/yandex/pandora/components/guns/http_scenario"
	"github.com/yandex/pandora/core"
	"github.com/yandex/pandora/core/aggregator/netsample"
	"github.com/yandex/pandora/core/config"
	"github.com/yandex/pandora/core/engine"
	"github.com/yandex/pandora/core/schedule"
	"github.com/yandex/pandora/lib/monitoring"
	"github.com/yandex/pandora/zverif/hutil"
	"github.com/yandex/pandora/zverif/vs"
	"go.uber.org/zap"
	"go.uber.org/zap/zapcore"
)

// R19 is one scripted answer.
type R19 struct {
	Status int    `json:"status"`
	Header string `json:"header"` // value of X-H ("-" absent, "1MB" huge)
	Body   string `json:"body"`   // empty x json badjson html badhtml 5MB fail
	Conn   string `json:"conn"`   // ok refused timeout reset eof tlsalert tlshandshake badcert noalpn(documented fatal for http2)
}

func defR19(long bool) R19 {
	h := "abcdefghijkl"
	if !long {
		h = "ab"
	}
	return R19{Status: 200, Header: h, Body: "json", Conn: "ok"}
}

type C19Cell struct {
	Gun      string      `json:"gun"` // http | scenario
	LongDef  bool        `json:"long_default"`
	Devs     map[int]R19 `json:"devs"` // 1-based request index -> answer
	Shots    int         `json:"shots"`
	DebugLog bool        `json:"debug"`
	Trace    bool        `json:"trace,omitempty"` // httptrace.dump and httptrace.trace switched on
	AnswLog  bool        `json:"answlog,omitempty"` // answer log on (filter all)
}

func (c C19Cell) Name() string {
	return fmt.Sprintf("c19|%s|longdef=%v|devs=%v|shots=%d|debug=%v|trace=%v", c.Gun, c.LongDef, c.Devs, c.Shots, c.DebugLog, c.Trace) + map[bool]string{true: "|answlog"}[c.AnswLog]
}

type timeoutErr struct{}

func (timeoutErr) Error() string   { return "i/o timeout" }
func (timeoutErr) Timeout() bool   { return true }
func (timeoutErr) Temporary() bool { return true }

type failReader struct{ n int }

func (b *failReader) Read(p []byte) (int, error) {
	if b.n == 0 {
		b.n++
		return copy(p, `{"token":"par`), nil
	}
	return 0, &net.OpError{Op: "read", Net: "tcp", Err: &os.SyscallError{Syscall: "read", Err: syscall.ECONNRESET}}
}
func (b *failReader) Close() error { return nil }

type c19client struct {
	cell   C19Cell
	n      *int
	sent   *[]string
	bodies *int
	h2     bool
}

// tlsAlert stands for crypto/tls's unexported alert type: net/http hands it over as
// &net.OpError{Op: "remote error", Err: alert}.
type tlsAlert string

func (a tlsAlert) Error() string { return "tls: " + string(a) }

func (c *c19client) CloseIdleConnections() {}

func (c *c19client) Do(req *http.Request) (*http.Response, error) {
	*c.n++
	*c.sent = append(*c.sent, req.URL.Path)
	r, ok := c.cell.Devs[*c.n]
	if !ok {
		r = defR19(c.cell.LongDef)
	}
	switch r.Conn {
	case "refused":
		return nil, &net.OpError{Op: "dial", Net: "tcp", Err: &os.SyscallError{Syscall: "connect", Err: syscall.ECONNREFUSED}}
	case "timeout":
		return nil, timeoutErr{}
	case "reset":
		return nil, &net.OpError{Op: "read", Net: "tcp", Err: &os.SyscallError{Syscall: "read", Err: syscall.ECONNRESET}}
	case "eof":
		return nil, io.ErrUnexpectedEOF
	case "tlsalert":
		return nil, &net.OpError{Op: "remote error", Err: tlsAlert("internal error")}
	case "tlshandshake":
		return nil, &net.OpError{Op: "remote error", Err: tlsAlert("handshake failure")}
	case "badcert":
		return nil, fmt.Errorf("tls: failed to verify certificate: x509: certificate signed by unknown authority")
	case "noalpn":
		return nil, &net.OpError{Op: "remote error", Err: tlsAlert("no application protocol")}
	}
	h := http.Header{"Content-Type": []string{"application/json"}}
	switch r.Header {
	case "-":
	case "1MB":
		h.Set("X-H", strings.Repeat("h", 1<<20))
	default:
		h["X-H"] = []string{r.Header}
	}
	var body io.ReadCloser
	switch r.Body {
	case "empty":
		body = http.NoBody
	case "x":
		body = io.NopCloser(strings.NewReader("x"))
	case "json":
		body = io.NopCloser(strings.NewReader(`{"token":"t","list":[1,2]}`))
	case "badjson":
		body = io.NopCloser(strings.NewReader(`{"token": [1, `))
	case "html":
		body = io.NopCloser(strings.NewReader(`<html><head><title>T</title></head><body><a href="x">l</a></body></html>`))
	case "badhtml":
		body = io.NopCloser(strings.NewReader("<<<\x00<title><</ti>&#xZZ;<a <b"))
	case "5MB":
		body = io.NopCloser(strings.NewReader(strings.Repeat("a", 5<<20)))
	case "fail":
		body = &failReader{}
	default:
		body = io.NopCloser(strings.NewReader(r.Body))
	}
	res := &http.Response{StatusCode: r.Status, Status: fmt.Sprintf("%d x", r.Status), Proto: "HTTP/1.1", ProtoMajor: 1, ProtoMinor: 1, Header: h, Body: body, Request: req, ContentLength: -1}
	if c.h2 {
		res.Proto, res.ProtoMajor, res.ProtoMinor = "HTTP/2.0", 2, 0
		res.TLS = &tls.ConnectionState{NegotiatedProtocol: "h2", NegotiatedProtocolIsMutual: true, HandshakeComplete: true}
	}
	return res, nil
}

const c19scenario = `requests:
  - name: h
    method: GET
    uri: /h
    postprocessors:
      - type: var/header
        mapping:
          v1: X-H|substr(5)
          v2: X-H|substr(-10)
          v3: X-H|substr(1,2)
          v4: X-H|lower|replace(a,b)
          v5: X-H|substr(2,-1)
          v6: Content-Type|upper|substr(0,3)
          v7: X-H|substr(-5,-2)
          v8: X-H|substr(-2,-5)
          v9: X-H|substr(3,-9)
  - name: j
    method: POST
    uri: /j
    body: '{"v": "{{.request.h.postprocessor.v1}}"}'
    postprocessors:
      - type: var/jsonpath
        mapping:
          token: $.token
          first: $.list[0]
  - name: x
    method: GET
    uri: /x?t={{.request.j.postprocessor.token}}
    postprocessors:
      - type: var/xpath
        mapping:
          title: //title
          links: //a/@href
      - type: assert/response
        headers: {Content-Type: json}
        body: [T]
        status_code: 200
        size: {val: 5, op: ">"}
scenarios:
  - name: s
    requests: [h, j, x]
`


// c19listScenario: a list captured from one answer is indexed by the next step's preprocessor
// ([0], [next], [rand], [last]); whatever list the target returns - also an empty one - the run goes on.
func c19listScenario(index string) string {
	return `requests:
  - name: l
    method: GET
    uri: /l
    postprocessors:
      - type: var/jsonpath
        mapping:
          items: $.list
  - name: u
    method: GET
    uri: '/u/{{.request.u.preprocessor.it}}'
    preprocessor:
      mapping:
        it: request.l.postprocessor.items[` + index + `]
scenarios:
  - name: s
    requests: [l, u]
`
}

type c19run struct {
	cell    C19Cell
	res     EngRes
	n       int
	sent    []string
	samples []*netsample.Sample
	cerr    error
}

func (r *c19run) scenario(x *vs.X) func(end, msg string) error {
	c := r.cell
	r.res, r.n, r.sent, r.samples = EngRes{}, 0, nil, nil
	var conf map[string]any
	if strings.HasPrefix(c.Gun, "scenario-list-") {
		_ = afero.WriteFile(memfs, "/c19l.yaml", []byte(c19listScenario(strings.TrimPrefix(c.Gun, "scenario-list-"))), 0o644)
		conf = map[string]any{"type": "http/scenario", "file": "/c19l.yaml", "limit": c.Shots}
	} else if c.Gun == "scenario" {
		_ = afero.WriteFile(memfs, "/c19.yaml", []byte(c19scenario), 0o644)
		conf = map[string]any{"type": "http/scenario", "file": "/c19.yaml", "limit": c.Shots}
	} else {
		_ = afero.WriteFile(memfs, "/c19.uri", []byte("[A: b]\n/h t\n/j\n/x t2\n"), 0o644)
		conf = map[string]any{"type": "uri", "file": "/c19.uri", "limit": c.Shots}
	}
	var h struct{ Ammo core.Provider }
	if err := config.DecodeAndValidate(map[string]any{"ammo": deepCopy(conf)}, &h); err != nil {
		r.cerr = err
		return func(end, msg string) error { return fmt.Errorf("HARNESS: provider: %v", err) }
	}
	gconf := phttp.DefaultHTTPGunConfig()
	gconf.Target = "127.0.0.1:80"
	gconf.TargetResolved = "127.0.0.1:80"
	if c.Trace {
		gconf.HTTPTrace.DumpEnabled, gconf.HTTPTrace.TraceEnabled = true, true
	}
	answLog := zap.NewNop()
	if c.AnswLog {
		gconf.AnswLog.Enabled, gconf.AnswLog.Filter = true, "all"
		answLog = zap.New(zapcore.NewCore(zapcore.NewConsoleEncoder(zap.NewDevelopmentEncoderConfig()), zapcore.AddSync(io.Discard), zapcore.DebugLevel))
	}
	cc := func(phttp.ClientConfig, string) phttp.Client {
		if c.Gun == "http2" {
			// the http2 guns' client: fatal only when the target has no HTTP/2
			return phttp.ZvPanicOnHTTP1(&c19client{cell: c, n: &r.n, sent: &r.sent, h2: true})
		}
		return &c19client{cell: c, n: &r.n, sent: &r.sent}
	}
	newGun := func() (core.Gun, error) {
		if strings.HasPrefix(c.Gun, "scenario") {
			g := httpscenario.ZvNewGunLog(cc, gconf, answLog)
			return httpscenario.WrapGun(g), nil
		}
		g := phttp.NewBaseGun(cc, gconf, answLog)
		return phttp.WrapGun(g), nil
	}
	log := nopLog
	if c.DebugLog {
		log = debugLog
	}
	metrics := engine.Metrics{Request: &monitoring.Counter{}, Response: &monitoring.Counter{}, InstanceStart: &monitoring.Counter{}, InstanceFinish: &monitoring.Counter{}}
	eng := engine.New(log, metrics, engine.Config{Pools: []engine.InstancePoolConfig{{
		ID:              "p",
		Provider:        h.Ammo,
		Aggregator:      netsample.WrapAggregator(RecAgg{&r.samples}),
		NewGun:          newGun,
		NewRPSSchedule:  func() (core.Schedule, error) { return schedule.NewOnce(int64(c.Shots + 2)), nil },
		StartupSchedule: schedule.NewOnce(1),
		DiscardOverflow: true,
	}}})
	ctx, cancel := context.WithCancel(context.Background())
	x.OnAbort(cancel)
	x.Deadline = time.Now().Add(time.Hour)
	vs.Go("engine", func() { StartEngine(ctx, cancel, eng, &r.res) })
	return func(end, msg string) error {
		defer cancel()
		return r.check(end, msg)
	}
}

func (r *c19run) check(end, msg string) error {
	c := r.cell
	if r.res.Panic != "" {
		return fmt.Errorf("CRASH: engine goroutine panicked: %s", r.res.Panic)
	}
	if end == vs.EndCap {
		return nil
	}
	if end != vs.EndComplete {
		return fmt.Errorf("HANG: execution ended with %s (%s); %d requests sent", end, msg, len(r.sent))
	}
	if r.res.Err != nil {
		return fmt.Errorf("ABORTED: the run ended with %q after %d requests: a response must not abort the run", r.res.Err, len(r.sent))
	}
	if strings.HasPrefix(c.Gun, "scenario-list-") {
		// every shot starts with /l; the step that cannot pick its item fails (one sample, nothing sent), the next shot is made
		ls := 0
		for _, p := range r.sent {
			if p == "/l" {
				ls++
			}
		}
		if ls != c.Shots {
			return fmt.Errorf("STOPPED: %d of %d shots were made (requests %v): the instance did not go on with the next ammo", ls, c.Shots, r.sent)
		}
		if len(r.samples) < len(r.sent) || len(r.samples) > 2*c.Shots {
			return fmt.Errorf("SAMPLES: %d requests sent in %d shots of a two-step scenario, %d samples reported", len(r.sent), c.Shots, len(r.samples))
		}
		return nil
	}
	shots := 0
	if c.Gun == "scenario" {
		for _, p := range r.sent {
			if p == "/h" {
				shots++
			}
		}
	} else {
		shots = len(r.sent)
	}
	if shots != c.Shots {
		return fmt.Errorf("STOPPED: %d of %d ammo were shot (requests %v): the instance did not go on with the next ammo", shots, c.Shots, r.sent)
	}
	if len(r.samples) != len(r.sent) {
		return fmt.Errorf("SAMPLES: %d requests sent, %d samples reported", len(r.sent), len(r.samples))
	}
	// each sample carries the received status or the failure
	for i, s := range r.samples {
		d, ok := c.Devs[i+1]
		if !ok {
			d = defR19(c.LongDef)
		}
		if d.Conn != "ok" {
			if s.Err() == nil {
				return fmt.Errorf("SAMPLE: request %d failed (%s) but its sample carries no failure", i+1, d.Conn)
			}
			continue
		}
		if d.Body == "fail" && s.Err() == nil {
			return fmt.Errorf("SAMPLE: the body of answer %d broke off while it was read, but its sample carries no failure (proto %d)", i+1, s.ProtoCode())
		}
		if s.ProtoCode() != d.Status && s.Err() == nil {
			return fmt.Errorf("SAMPLE: request %d got status %d, its sample carries proto %d and no failure", i+1, d.Status, s.ProtoCode())
		}
	}
	return nil
}

func c19cells(thorough bool) []C19Cell {
	var alts []R19
	d := defR19(true)
	for _, st := range []int{100, 204, 301, 404, 500, 599} {
		a := d
		a.Status = st
		alts = append(alts, a)
	}
	for _, hv := range []string{"-", "", "a", "ab", "abc", "abcd", "abcde", "abcdef", "1MB", "ÿ\x00\n"} {
		a := d
		a.Header = hv
		alts = append(alts, a)
	}
	for _, b := range []string{"empty", "x", "badjson", "html", "badhtml", "5MB", "fail", "null", "[]", "\"str\"", "{\"token\":{\"a\":1},\"list\":{}}"} {
		a := d
		a.Body = b
		alts = append(alts, a)
	}
	for _, cn := range []string{"refused", "timeout", "reset", "eof", "tlsalert", "tlshandshake", "badcert"} {
		a := d
		a.Conn = cn
		alts = append(alts, a)
	}
	var out []C19Cell
	guns := []string{"http", "scenario", "http2"}
	perOf := func(gun string) int {
		if gun == "scenario" {
			return 3
		}
		return 1
	}
	shots := 3
	// a list captured from an answer and indexed by the next step: every way of indexing x every shape of the list
	for _, idx := range []string{"0", "1", "-1", "5", "-5", "-2", "next", "rand", "last"} {
		out = append(out, C19Cell{Gun: "scenario-list-" + idx, LongDef: true, Shots: shots})
		for pos := 1; pos <= 3; pos += 2 {
			for _, body := range []string{`{"list": []}`, `{"list": null}`, `{"list": "str"}`, `{"list": {}}`, `{"list": [[]]}`, `{"list": [null]}`, `{"list": 7}`, `{}`, `[]`} {
				a := d
				a.Body = body
				out = append(out, C19Cell{Gun: "scenario-list-" + idx, LongDef: true, Shots: shots, Devs: map[int]R19{pos: a}})
			}
		}
	}
	// every single deviation first (this is the quick tier), pairs afterwards: a budget cap in thorough
	// then cuts into the pairs, never into what quick covers
	for _, gun := range guns {
		per := perOf(gun)
		for _, long := range []bool{true, false} {
			out = append(out, C19Cell{Gun: gun, LongDef: long, Shots: shots})
			out = append(out, C19Cell{Gun: gun, LongDef: long, Shots: shots, DebugLog: true})
			for pos := 1; pos <= shots*per; pos++ {
				for ai, a := range alts {
					out = append(out, C19Cell{Gun: gun, LongDef: long, Shots: shots, Devs: map[int]R19{pos: a}})
					if long && pos <= per && (a.Conn != "ok" || ai%5 == 0) {
						// request dumping / tracing switched on: every failure kind and a sample of the answers
						out = append(out, C19Cell{Gun: gun, LongDef: long, Shots: shots, Devs: map[int]R19{pos: a}, Trace: true})
					}
					if long && pos <= per && gun != "http2" {
						// the answer log switched on: every answer and failure kind passes through the log's dumps
						out = append(out, C19Cell{Gun: gun, LongDef: long, Shots: shots, Devs: map[int]R19{pos: a}, AnswLog: true})
					}
				}
			}
		}
	}
	if thorough {
		for _, long := range []bool{true, false} {
			for _, gun := range []string{"http2", "http", "scenario"} {
				per := perOf(gun)
				for pos := 1; pos <= per; pos++ {
					for _, a := range alts {
						for _, b := range alts {
							out = append(out, C19Cell{Gun: gun, LongDef: long, Shots: shots, Devs: map[int]R19{pos: a, pos + per: b}})
						}
					}
				}
			}
		}
	}
	return out
}

func runC19(t interface{ Fatal(...any) }, spec *hutil.Spec, out *hutil.Out, e *vs.Explorer) {
	for ci, c := range c19cells(spec.Thorough()) {
		if !spec.Mine(ci) || (spec.Only != "" && !strings.Contains(c.Name(), spec.Only)) {
			continue
		}
		if out.OverBudget() {
			return
		}
		if !out.Begin(c.Name()) {
			continue
		}
		out.Cells++
		r := &c19run{cell: c}
		e.Scenario = r.scenario
		e.Opts.Bound = 0
		e.Violation, e.HarnessErr, e.BoundDone, e.CapHit = nil, false, -1, ""
		ex0, n0, s0 := e.Execs, e.Nodes, e.Steps
		e.OnExec = func(res *vs.Result) { out.Outcome("c19", c.Name()+fmt.Sprint(r.sent, len(r.samples), r.res.Err)) }
		complete := e.Explore()
		out.Evals += int64(e.Execs - ex0)
		out.States += int64(e.Nodes - n0)
		out.Transitions += int64(e.Steps - s0)
		if !complete || e.CapHit != "" {
			out.Cap("cell %s: %s", c.Name(), e.CapHit)
		}
		if e.HarnessErr {
			out.HarnessErr = c.Name() + ": " + e.Violation.Err.Error()
			return
		}
		if v := e.Violation; v != nil {
			if strings.HasPrefix(v.Err.Error(), "HARNESS:") {
				out.HarnessErr = v.Err.Error()
				return
			}
			dk := "default"
			for _, d := range c.Devs {
				switch {
				case d.Conn != "ok":
					dk = "conn"
				case d.Status != 200:
					dk = "status"
				case d.Body != "json":
					dk = "body-" + d.Body
				default:
					dk = "header"
				}
			}
			out.Violate("C19|"+c.Gun+"|"+classify(v.Err)+"|"+dk, c.Name()+"\n"+v.Err.Error(), c)
		}
		if ci%397 == 0 {
			out.Sample(map[string]any{"cell": c.Name()})
		}
	}
}

var _ = errors.New
