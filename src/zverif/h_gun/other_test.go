package h_gun

import (
	"encoding/json"
	"fmt"
	"testing"

	"github.com/yandex/pandora/zverif/hutil"
)

func runOther(t *testing.T, spec *hutil.Spec, out *hutil.Out) {
	switch spec.Property {
	case "C09":
		runC09(spec, out)
	default:
		out.HarnessErr = "unknown property " + spec.Property
	}
}

func replayOther(t *testing.T, spec *hutil.Spec, out *hutil.Out, tier string) {
	switch tier {
	case "c09":
		initPlugins()
		var w struct {
			Cell C09Cell `json:"cell"`
		}
		_ = json.Unmarshal(spec.Replay, &w)
		err := runC09Cell(w.Cell)
		fmt.Printf("cell %s\nfile %q\nverdict: %v\n", w.Cell.Name(), render(w.Cell.File.Format, w.Cell.File.Items, w.Cell.File.Layout), err)
		if err != nil {
			out.Violate("C09|replay", err.Error(), spec.Replay)
		}
	default:
		out.HarnessErr = "unknown replay tier " + tier
	}
}
