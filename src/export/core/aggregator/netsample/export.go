package netsample

import "time"

// Overlay-only exports for the verification harnesses (not part of the repository).

func ZvNewSample(ts time.Time, tags string, id uint64, fields [10]int) *Sample {
	s := &Sample{timeStamp: ts, tags: tags, id: id}
	for i, v := range fields {
		s.fields[i] = v
	}
	return s
}

func ZvAppendPhout(s *Sample, id bool) []byte { return appendPhout(s, nil, id) }

func ZvErrno(s *Sample) int { return s.get(keyErrno) }

// ZvRelease gives a sample back to the pool, as the phout aggregator does after writing its line.
func ZvRelease(s *Sample) { releaseSample(s) }
