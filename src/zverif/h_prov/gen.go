package h_prov

// Abstract ammo entries, their rendering into the four HTTP ammo formats with
// every permitted layout variation, and the reference model of what the
// provider must deliver.

import (
	"bytes"
	"encoding/json"
	"fmt"
	"net/textproto"
	"sort"
	"strings"
)

type KV struct{ K, V string }

// Item is an ammo entry or (uri/uripost only) an in-file header directive.
type Item struct {
	Dir     *KV    `json:"dir,omitempty"`
	Method  string `json:"method,omitempty"`
	URI     string `json:"uri,omitempty"`
	Body    []byte `json:"body,omitempty"`
	Tag     string `json:"tag,omitempty"`
	Headers []KV   `json:"headers,omitempty"` // raw / json only
	Host    string `json:"host,omitempty"`    // raw / json only
}

type Layout struct {
	FinalNL  bool   `json:"final_nl"`
	Blank    bool   `json:"blank"`          // blank lines between (and before) entries
	Surround bool   `json:"surround"`       // spaces around header/uri lines
	JSON     string `json:"json,omitempty"` // lines | pretty | array | arraypretty
	Tail     string `json:"tail,omitempty"` // raw, no final newline: white space after the last entry's bytes (no newline after it)
}

// Want is what the provider must deliver for one entry.
type Want struct {
	Method  string
	URI     string
	Body    string
	Tag     string
	Host    string
	Headers string // canonical "K=V;K=V" sorted
}

func (w Want) String() string {
	return fmt.Sprintf("%s %s host=%q tag=%q hdr={%s} body=%q", w.Method, w.URI, w.Host, w.Tag, w.Headers, w.Body)
}

func hdrString(m map[string]string) string {
	ks := make([]string, 0, len(m))
	for k := range m {
		ks = append(ks, k)
	}
	sort.Strings(ks)
	var sb strings.Builder
	for _, k := range ks {
		fmt.Fprintf(&sb, "%s=%s;", k, m[k])
	}
	return sb.String()
}

// Model: one pass over the file.
func model(format string, items []Item) []Want {
	var out []Want
	acc := map[string]string{}
	for _, it := range items {
		if it.Dir != nil {
			acc[textproto.CanonicalMIMEHeaderKey(it.Dir.K)] = it.Dir.V
			continue
		}
		w := Want{Method: it.Method, URI: it.URI, Body: string(it.Body), Tag: it.Tag}
		h := map[string]string{}
		switch format {
		case "uri", "uripost":
			for k, v := range acc {
				if k == "Host" {
					w.Host = v
				} else {
					h[k] = v
				}
			}
			if format == "uri" {
				w.Method = "GET"
				w.Body = ""
			} else {
				w.Method = "POST"
			}
		default:
			w.Host = it.Host
			for _, kv := range it.Headers {
				h[textproto.CanonicalMIMEHeaderKey(kv.K)] = kv.V
			}
		}
		w.Headers = hdrString(h)
		out = append(out, w)
	}
	return out
}

func entries(items []Item) int {
	n := 0
	for _, it := range items {
		if it.Dir == nil {
			n++
		}
	}
	return n
}

func surround(s string, on bool) string {
	if on {
		return "  " + s + " \t"
	}
	return s
}

func render(format string, items []Item, l Layout) []byte {
	var b bytes.Buffer
	sep := func() {
		if l.Blank {
			if l.Surround {
				b.WriteString(" \t") // a line of white space only is a blank line too
			}
			b.WriteString("\n")
		}
	}
	switch format {
	case "uri":
		var lines []string
		for _, it := range items {
			if it.Dir != nil {
				lines = append(lines, surround(fmt.Sprintf("[%s: %s]", it.Dir.K, it.Dir.V), l.Surround))
				continue
			}
			s := it.URI
			if it.Tag != "" {
				s += " " + it.Tag
			}
			lines = append(lines, surround(s, l.Surround))
		}
		for i, ln := range lines {
			sep()
			b.WriteString(ln)
			if i < len(lines)-1 || l.FinalNL {
				b.WriteString("\n")
			}
		}
	case "uripost":
		for i, it := range items {
			sep()
			last := i == len(items)-1
			if it.Dir != nil {
				b.WriteString(surround(fmt.Sprintf("[%s: %s]", it.Dir.K, it.Dir.V), l.Surround))
				if !last || l.FinalNL {
					b.WriteString("\n")
				}
				continue
			}
			s := fmt.Sprintf("%d %s", len(it.Body), it.URI)
			if it.Tag != "" {
				s += " " + it.Tag
			}
			b.WriteString(surround(s, l.Surround))
			if len(it.Body) > 0 {
				b.WriteString("\n")
				b.Write(it.Body)
			}
			if !last || l.FinalNL {
				b.WriteString("\n")
			}
		}
	case "raw":
		for i, it := range items {
			sep()
			last := i == len(items)-1
			var r bytes.Buffer
			fmt.Fprintf(&r, "%s %s HTTP/1.1\r\n", it.Method, it.URI)
			if it.Host != "" {
				fmt.Fprintf(&r, "Host: %s\r\n", it.Host)
			}
			for _, kv := range it.Headers {
				fmt.Fprintf(&r, "%s: %s\r\n", kv.K, kv.V)
			}
			if len(it.Body) > 0 {
				fmt.Fprintf(&r, "Content-Length: %d\r\n", len(it.Body))
			}
			r.WriteString("\r\n")
			r.Write(it.Body)
			s := fmt.Sprintf("%d", r.Len())
			if it.Tag != "" {
				s += " " + it.Tag
			}
			b.WriteString(surround(s, l.Surround))
			b.WriteString("\n")
			b.Write(r.Bytes())
			if !last || l.FinalNL {
				b.WriteString("\n")
			} else {
				b.WriteString(l.Tail)
			}
		}
	case "jsonline":
		type ent struct {
			Tag     string            `json:"tag"`
			URI     string            `json:"uri"`
			Method  string            `json:"method"`
			Headers map[string]string `json:"headers,omitempty"`
			Host    string            `json:"host"`
			Body    string            `json:"body,omitempty"`
		}
		// "-omit" layouts leave out the optional keys tag and host when they are empty
		type entOmit struct {
			Tag     string            `json:"tag,omitempty"`
			URI     string            `json:"uri"`
			Method  string            `json:"method"`
			Headers map[string]string `json:"headers,omitempty"`
			Host    string            `json:"host,omitempty"`
			Body    string            `json:"body,omitempty"`
		}
		omit := strings.HasSuffix(l.JSON, "-omit")
		l.JSON = strings.TrimSuffix(l.JSON, "-omit")
		marshal := func(v any, indent string) []byte {
			conv := func(e ent) any {
				if omit {
					return entOmit(e)
				}
				return e
			}
			var x any
			switch t := v.(type) {
			case ent:
				x = conv(t)
			case []ent:
				l := make([]any, len(t))
				for i := range t {
					l[i] = conv(t[i])
				}
				x = l
			}
			var bs []byte
			if indent == "" {
				bs, _ = json.Marshal(x)
			} else {
				bs, _ = json.MarshalIndent(x, "", indent)
			}
			return bs
		}
		var es []ent
		for _, it := range items {
			e := ent{Tag: it.Tag, URI: it.URI, Method: it.Method, Host: it.Host, Body: string(it.Body)}
			if len(it.Headers) > 0 {
				e.Headers = map[string]string{}
				for _, kv := range it.Headers {
					e.Headers[kv.K] = kv.V
				}
			}
			es = append(es, e)
		}
		switch l.JSON {
		case "array", "arraypretty":
			var bs []byte
			if l.JSON == "array" {
				bs = marshal(es, "")
			} else {
				bs = marshal(es, "  ")
			}
			if l.Blank {
				b.WriteString("\n \n")
			}
			b.Write(bs)
			if l.FinalNL {
				b.WriteString("\n")
			}
		default:
			for i, e := range es {
				sep()
				var bs []byte
				if l.JSON == "pretty" {
					bs = marshal(e, "\t")
				} else {
					bs = marshal(e, "")
				}
				if l.Surround {
					b.WriteString("  ")
				}
				b.Write(bs)
				if l.Surround {
					b.WriteString(" \t")
				}
				if i < len(es)-1 || l.FinalNL {
					b.WriteString("\n")
				}
			}
		}
	}
	return b.Bytes()
}

// ---- alphabets

var (
	uriAlpha  = []string{"/", "/a?b=c&d=e"}
	tagAlpha  = []string{"", "t", "two words", "a  b\tc"}
	bodyAlpha = [][]byte{nil, []byte("a"), []byte("a\nb"), []byte("[x]"), []byte("1 /z"), {0x00, 0xff}, []byte("\r\n")}
	// JSON strings cannot carry invalid UTF-8; the binary body is replaced by control and non-ASCII characters
	bodyAlphaJSON = [][]byte{nil, []byte("a"), []byte("a\nb"), []byte("[x]"), []byte("{\"q\":1}"), []byte("\x00\x7fé"), []byte("\r\n")}
	dirAlpha      = []KV{{"A", "1"}, {"Host", "h.example"}, {"A", "2"}, {"X-b", "v w"}, {"X-Ids", "[1,2]]"}, {"Referer", "http://x.example/a:b?c=[d]"}, {"x-lower-case", "v"}}
)

func itemAlphabet(format string, reduced bool) []Item {
	var out []Item
	switch format {
	case "uri":
		for _, u := range uriAlpha {
			for _, t := range tagAlpha {
				out = append(out, Item{URI: u, Tag: t})
			}
		}
		for i := range dirAlpha {
			out = append(out, Item{Dir: &dirAlpha[i]})
		}
		if reduced {
			out = []Item{out[0], out[4], out[5], out[6], out[7], out[8], {Dir: &dirAlpha[4]}}
		}
	case "uripost":
		if reduced {
			out = []Item{
				{URI: "/", Body: nil}, {URI: "/a?b=c&d=e", Body: []byte("a\nb"), Tag: "two words"},
				{URI: "/", Body: []byte("1 /z"), Tag: "t"}, {URI: "/", Body: []byte("\r\n")}, {URI: "/a?b=c&d=e", Body: []byte{0, 0xff}, Tag: "t"},
				{URI: "/", Body: []byte("[x]")},
				{URI: "/big", Body: bytes.Repeat([]byte("0123456789abcdef"), 200), Tag: "t"}, // 3200 bytes: two of them outgrow a 4 KiB read buffer
				{Dir: &dirAlpha[0]}, {Dir: &dirAlpha[1]}, {Dir: &dirAlpha[2]}, {Dir: &dirAlpha[4]},
			}
			return out
		}
		for _, u := range uriAlpha {
			for _, bd := range bodyAlpha {
				for _, t := range tagAlpha {
					out = append(out, Item{URI: u, Body: bd, Tag: t})
				}
			}
		}
		for i := range dirAlpha {
			out = append(out, Item{Dir: &dirAlpha[i]})
		}
	case "raw", "jsonline":
		bodies := bodyAlpha
		if format == "jsonline" {
			bodies = bodyAlphaJSON
		}
		hs := [][]KV{nil, {{"A", "1"}}, {{"A", "1"}, {"X-b", "v w"}}, {{"A", ""}}, {{"Referer", "http://x.example/a:b"}, {"x-lower-case", "v"}}} // an empty value; a value with colons; a non-canonical name
		hosts := []string{"", "h.example"}
		if reduced {
			out = []Item{
				{Method: "GET", URI: "/"}, {Method: "GET", URI: "/a?b=c&d=e", Tag: "two words", Host: "h.example", Headers: hs[1]},
				{Method: "POST", URI: "/", Body: bodies[2], Tag: "t", Headers: hs[2]}, {Method: "POST", URI: "/a?b=c&d=e", Body: bodies[5], Host: "h.example"},
				{Method: "PUT", URI: "/", Body: bodies[6], Tag: "t"}, {Method: "POST", URI: "/", Body: bodies[4], Tag: "two words"},
				{Method: "DELETE", URI: "/a?b=c&d=e", Host: "h.example"},
			}
			return out
		}
		for _, m := range []string{"GET", "POST"} {
			for _, u := range uriAlpha {
				for bi, bd := range bodies {
					if m == "GET" && bi > 0 {
						continue
					}
					for _, t := range tagAlpha {
						for hi, h := range hs {
							for _, ho := range hosts {
								if (hi+bi)%2 == 1 && ho == "" && bi > 1 {
									continue // thin out: binary/large bodies only with one host variant per header set
								}
								out = append(out, Item{Method: m, URI: u, Body: bd, Tag: t, Headers: h, Host: ho})
							}
						}
					}
				}
			}
		}
	}
	// request URIs outside Go's default encoding: an escaped slash, lower-case escapes, sub-delims,
	// an empty query (appended last: the reduced sets above pick their members by index)
	for _, u := range uriExotic {
		switch format {
		case "uri":
			out = append(out, Item{URI: u, Tag: "t"})
		case "uripost":
			out = append(out, Item{URI: u, Body: []byte("a")})
		default:
			out = append(out, Item{Method: "GET", URI: u, Host: "h.example"})
		}
	}
	return out
}

var uriExotic = []string{"/a%2fb/(x)!*'", "/q?", "/%7euser/a+b?x=%3d&y=a+b", "/long?q=" + strings.Repeat("0123456789", 520)} // the last: a line beyond 4 KiB

func layouts(format string) []Layout {
	var out []Layout
	for _, nl := range []bool{true, false} {
		for _, bl := range []bool{false, true} {
			for _, su := range []bool{false, true} {
				if format == "jsonline" {
					for _, j := range []string{"lines", "pretty", "array", "arraypretty", "lines-omit", "array-omit"} {
						if su && strings.HasPrefix(j, "array") {
							continue
						}
						out = append(out, Layout{FinalNL: nl, Blank: bl, Surround: su, JSON: j})
					}
				} else {
					out = append(out, Layout{FinalNL: nl, Blank: bl, Surround: su})
				}
			}
		}
	}
	return out
}

// File is one enumerated ammo file.
type File struct {
	Format string `json:"format"`
	Items  []Item `json:"items"`
	Layout Layout `json:"layout"`
}

func (f File) Name() string {
	return fmt.Sprintf("%s|items=%d|entries=%d|nl=%v|blank=%v|surround=%v|%s", f.Format, len(f.Items), entries(f.Items), f.Layout.FinalNL, f.Layout.Blank, f.Layout.Surround, f.Layout.JSON) + map[bool]string{true: fmt.Sprintf("|tail=%q", f.Layout.Tail)}[f.Layout.Tail != ""]
}

// enumFiles calls fn for every file: all item lists of length <= 2 over the
// full alphabet and of length 3 over the reduced one (length 3: thorough or
// every layout in quick for the small formats), with every layout.
func enumFiles(format string, thorough bool, fn func(f File)) (count int) {
	full := itemAlphabet(format, false)
	red := itemAlphabet(format, true)
	ls := layouts(format)
	emit := func(items []Item) {
		if entries(items) == 0 {
			return
		}
		for _, l := range ls {
			count++
			fn(File{Format: format, Items: items, Layout: l})
		}
	}
	for _, a := range full {
		emit([]Item{a})
	}
	pair := full
	if !thorough && len(full) > 30 {
		pair = red
		// full x reduced and reduced x full still cover every full item in both positions
		for _, a := range full {
			for _, b := range red {
				emit([]Item{a, b})
				emit([]Item{b, a})
			}
		}
	} else {
		for _, a := range pair {
			for _, b := range pair {
				emit([]Item{a, b})
			}
		}
	}
	for _, a := range red {
		for _, b := range red {
			for _, c := range red {
				emit([]Item{a, b, c})
			}
		}
	}
	if format == "raw" {
		// the file ends in white space that no newline follows (a trailing blank, a lone CR)
		ls = nil
		for _, tail := range []string{" ", "\r", "\t ", " \r"} {
			ls = append(ls, Layout{Tail: tail}, Layout{Tail: tail, Blank: true})
		}
		for _, a := range red {
			emit([]Item{a})
			for _, b := range red {
				emit([]Item{a, b})
			}
		}
	}
	return count
}
