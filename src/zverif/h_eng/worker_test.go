package h_eng

import (
	"context"
	"encoding/json"
	"errors"
	"fmt"
	"sort"
	"strings"
	"testing"
	"time"

	"github.com/yandex/pandora/core"
	"github.com/yandex/pandora/core/engine"
	"github.com/yandex/pandora/core/schedule"
	"github.com/yandex/pandora/lib/monitoring"
	"github.com/yandex/pandora/zverif/hutil"
	"github.com/yandex/pandora/zverif/vs"
	"go.uber.org/zap"
)

// Sched is an abstract schedule (leaf or list).
type Sched struct {
	K  string  `json:"k"`
	A  float64 `json:"a,omitempty"`
	B  float64 `json:"b,omitempty"`
	C  int64   `json:"c,omitempty"`
	D  int64   `json:"d,omitempty"` // ms
	Ch []Sched `json:"ch,omitempty"`
}

func ms(d int64) time.Duration { return time.Duration(d) * time.Millisecond }

func (s Sched) String() string {
	switch s.K {
	case "once":
		return fmt.Sprintf("once(%d)", int64(s.A))
	case "const":
		return fmt.Sprintf("const(%g,%dms)", s.A, s.D)
	case "line":
		return fmt.Sprintf("line(%g,%g,%dms)", s.A, s.B, s.D)
	case "unlimited":
		return fmt.Sprintf("unlimited(%dms)", s.D)
	case "istep":
		return fmt.Sprintf("istep(%d,%d,%d,%dms)", int64(s.A), int64(s.B), s.C, s.D)
	}
	var p []string
	for _, c := range s.Ch {
		p = append(p, c.String())
	}
	return "[" + strings.Join(p, ",") + "]"
}

func (s Sched) Build() core.Schedule {
	switch s.K {
	case "once":
		return schedule.NewOnce(int64(s.A))
	case "const":
		return schedule.NewConst(s.A, ms(s.D))
	case "line":
		return schedule.NewLine(s.A, s.B, ms(s.D))
	case "unlimited":
		return schedule.NewUnlimited(ms(s.D))
	case "istep":
		return schedule.NewInstanceStep(int64(s.A), int64(s.B), s.C, ms(s.D))
	}
	var ch []core.Schedule
	for _, c := range s.Ch {
		ch = append(ch, c.Build())
	}
	return schedule.NewComposite(ch...)
}

// tokens returns the token offsets of a known-length schedule (relative to its start) and its total duration.
func (s Sched) tokens() (off []time.Duration, dur time.Duration) {
	switch s.K {
	case "once":
		for i := int64(0); i < int64(s.A); i++ {
			off = append(off, 0)
		}
		return off, 0
	case "const":
		d := ms(s.D)
		n := int64(s.A*d.Seconds() + 1e-9)
		for i := int64(0); i < n; i++ {
			off = append(off, time.Duration(float64(i)/s.A*1e9))
		}
		return off, d
	case "istep":
		for i := int64(0); i < int64(s.A); i++ {
			off = append(off, 0)
		}
		for i := int64(s.A) + s.C; i <= int64(s.B); i += s.C {
			dur += ms(s.D)
			for j := int64(0); j < s.C; j++ {
				off = append(off, dur)
			}
		}
		return off, dur
	case "comp":
		for _, c := range s.Ch {
			o, d := c.tokens()
			for _, x := range o {
				off = append(off, dur+x)
			}
			dur += d
		}
		return off, dur
	}
	panic("tokens: unsupported " + s.K)
}

func (s Sched) unknown() bool {
	if s.K == "unlimited" {
		return true
	}
	for _, c := range s.Ch {
		if c.unknown() {
			return true
		}
	}
	return false
}

type Fault struct {
	Kind string `json:"kind"` // "", prov, provlate, aggstart, aggend, gun, bind, warm, sched, panic
	Pos  int    `json:"pos"`
}

type Cfg struct {
	Prop      string  `json:"prop"`
	Startup   Sched   `json:"startup"`
	RPS       Sched   `json:"rps"`
	PerInst   bool    `json:"per_instance"`
	Ammo      int     `json:"ammo"` // -1 unbounded
	Discard   bool    `json:"discard"`
	ShotMs    []int64 `json:"shot_ms"`
	Fault     Fault   `json:"fault"`
	Cancel    bool    `json:"cancel"`
	CancelMs  []int64 `json:"cancel_ms,omitempty"` // environment choice of the cancel delay
	Closable  bool    `json:"closable"`
	WarmUp    bool    `json:"warmup"`
	ProvBuf   int     `json:"prov_buf,omitempty"` // the provider queues this many items ahead (its Run returns early)
	SkewUs    int64   `json:"skew_us,omitempty"` // every shot ends this many microseconds before its nominal duration
	Fault2    Fault   `json:"fault2,omitempty"`  // a second component failing in the same run
	WarmMs    int64   `json:"warm_ms,omitempty"` // the warm-up takes this long and does not look at the context
	OtherWarmMs int64 `json:"other_warm_ms,omitempty"` // pools after the first warm their guns up for this long (they start shooting later)
	Pools     int     `json:"pools"`
	OtherLong bool    `json:"other_long,omitempty"`
	CauseDeadline bool `json:"cause_deadline,omitempty"` // the injected failure is the component's own timeout (wraps context.DeadlineExceeded) // pools other than the first run a long paced profile with unbounded ammo
	Bound     int     `json:"bound"`
	Advance   bool    `json:"advance"`
	AdvanceMs int64   `json:"advance_ms,omitempty"`
}

func (c Cfg) Name() string {
	return fmt.Sprintf("%s|startup=%s|rps=%s|perinst=%v|ammo=%d|discard=%v|shot=%v|fault=%s@%d|cancel=%v%v|pools=%d|closable=%v|warm=%v|adv=%v|otherlong=%v",
		c.Prop, c.Startup, c.RPS, c.PerInst, c.Ammo, c.Discard, c.ShotMs, c.Fault.Kind, c.Fault.Pos, c.Cancel, c.CancelMs, c.Pools, c.Closable, c.WarmUp, c.Advance, c.OtherLong) + map[bool]string{true: "|cause=deadline", false: ""}[c.CauseDeadline] + map[bool]string{true: fmt.Sprintf("|warmms=%d", c.WarmMs), false: ""}[c.WarmMs > 0] + map[bool]string{true: fmt.Sprintf("|fault2=%s@%d", c.Fault2.Kind, c.Fault2.Pos), false: ""}[c.Fault2.Kind != ""] + map[bool]string{true: fmt.Sprintf("|skew=%dus", c.SkewUs), false: ""}[c.SkewUs > 0] + map[bool]string{true: fmt.Sprintf("|provbuf=%d", c.ProvBuf), false: ""}[c.ProvBuf > 0] + map[bool]string{true: fmt.Sprintf("|otherwarm=%dms", c.OtherWarmMs), false: ""}[c.OtherWarmMs > 0]
}

type poolState struct {
	w *World
}

type run struct {
	cfg     Cfg
	pools   []*World
	metrics engine.Metrics
	eng     *engine.Engine

	runErr      error
	runReturned bool
	runRetAt    time.Time
	waitRet     bool
	openAtWait  []string // closable guns of started instances still open when Engine.Wait returned
	busyAtWait  []string // providers / aggregators still running when Engine.Wait returned
	cancelled   bool
	cancelAt    time.Time
	cancelStamp int
	runStamp    int
	clock       int
	t0          time.Time
	cause       error
}

func (r *run) newWorld() *World {
	c := r.cfg
	w := &World{T0: r.t0, Items: c.Ammo, Acquired: map[int]int{}, ProvFailAt: -1, GunFailAt: -1, BindFailAt: -1,
		PanicAtShot: -1, SchedFailAt: -1, Tokens: map[int]*Token{}, Closable: c.Closable, WarmUp: c.WarmUp, WarmDur: ms(c.WarmMs), ProvBuf: c.ProvBuf, Waited: &r.waitRet, Cause: r.cause, CauseBare: c.CauseDeadline}
	for _, m := range c.ShotMs {
		d := ms(m)
		if d > 0 && c.SkewUs > 0 {
			d -= time.Duration(c.SkewUs) * time.Microsecond
		}
		w.ShotDur = append(w.ShotDur, d)
	}
	return w
}

func (r *run) applyFault(w *World) {
	r.applyOne(w, r.cfg.Fault)
	r.applyOne(w, r.cfg.Fault2)
}

func (r *run) applyOne(w *World, f Fault) {
	switch f.Kind {
	case "prov":
		w.ProvFailAt = f.Pos
	case "provlate":
		w.ProvFailLate = true
	case "aggstart":
		w.AggFailAt = "start"
	case "aggend":
		w.AggFailAt = "end"
	case "gun":
		w.GunFailAt = f.Pos
	case "bind":
		w.BindFailAt = f.Pos
	case "warm":
		w.WarmFail = true
		w.WarmUp = true
	case "sched":
		w.SchedFailAt = f.Pos
	case "panic":
		w.PanicAtShot = f.Pos
	}
}

func (r *run) scenario(x *vs.X) func(end, msg string) error {
	c := r.cfg
	r.t0 = time.Now()
	r.cause = errors.New("INJECTED-CAUSE")
	if c.CauseDeadline {
		r.cause = context.DeadlineExceeded // the component's own timeout, returned bare
	}
	r.pools = nil
	r.runErr, r.runReturned, r.waitRet, r.cancelled = nil, false, false, false
	r.clock, r.cancelStamp, r.runStamp = 0, 0, 0
	r.metrics = engine.Metrics{Request: &monitoring.Counter{}, Response: &monitoring.Counter{},
		InstanceStart: &monitoring.Counter{}, InstanceFinish: &monitoring.Counter{}}
	npools := c.Pools
	if npools == 0 {
		npools = 1
	}
	var conf engine.Config
	for pi := 0; pi < npools; pi++ {
		w := r.newWorld()
		if pi == 0 {
			r.applyFault(w) // faults hit the first pool; the others are healthy
		}
		r.pools = append(r.pools, w)
		rps := c.RPS
		if pi > 0 && c.OtherWarmMs > 0 {
			w.WarmUp, w.WarmDur = true, ms(c.OtherWarmMs)
		}
		if pi > 0 && c.OtherLong {
			rps = cst(1, 600000)
			w.Items = -1
		}
		conf.Pools = append(conf.Pools, engine.InstancePoolConfig{
			ID:         fmt.Sprintf("p%d", pi),
			Provider:   NewProv(w),
			Aggregator: &Agg{w: w},
			NewGun:     w.NewGun,
			NewRPSSchedule: func() (core.Schedule, error) {
				i := w.SchedCalls
				w.SchedCalls++
				if w.SchedFailAt == i {
					return nil, fmt.Errorf("schedule factory: %w", w.Cause)
				}
				return w.WrapSchedule(rps.Build()), nil
			},
			RPSPerInstance:  c.PerInst,
			StartupSchedule: c.Startup.Build(),
			DiscardOverflow: c.Discard,
		})
	}
	r.eng = engine.New(zap.NewNop(), r.metrics, conf)
	ctx, cancel := context.WithCancel(context.Background())
	x.OnAbort(cancel)
	x.Deadline = r.t0.Add(3 * time.Hour)
	vs.Go("main", func() {
		err := r.eng.Run(ctx)
		r.clock++
		r.runStamp = r.clock
		r.runErr, r.runReturned, r.runRetAt = err, true, time.Now()
		r.eng.Wait()
		r.waitRet = true
		r.openAtWait, r.busyAtWait = nil, nil
		for pi, w := range r.pools {
			if w.ProvRunEnd == 1 {
				r.busyAtWait = append(r.busyAtWait, fmt.Sprintf("pool %d provider", pi))
			}
			if w.AggRunEnd == 1 {
				r.busyAtWait = append(r.busyAtWait, fmt.Sprintf("pool %d aggregator", pi))
			}
		}
		for pi, w := range r.pools {
			for _, g := range w.Guns {
				if w.Closable && g.Bound && g.Shots >= 0 && g.Owner >= -1 && g.Closed == 0 {
					r.openAtWait = append(r.openAtWait, fmt.Sprintf("pool %d gun %d", pi, g.Index))
				}
			}
		}
		cancel()
	})
	if c.Cancel {
		var delay time.Duration
		if len(c.CancelMs) > 0 {
			delay = ms(c.CancelMs[vs.Choose(len(c.CancelMs), "cancel-delay")])
		}
		vs.Go("canceller", func() {
			Canceller(delay, cancel, func() {
				r.clock++
				r.cancelStamp = r.clock
				r.cancelled = true
				r.cancelAt = time.Now()
			})
		})
	}
	return func(end, msg string) error {
		err := r.check(end, msg)
		if err != nil {
			return fmt.Errorf("%v\n%s", err, r.describe())
		}
		return nil
	}
}

func (r *run) describe() string {
	var b strings.Builder
	rel := func(t time.Time) string { return t.Sub(r.t0).String() }
	fmt.Fprintf(&b, "  Run returned=%v err=%v at=%s; Wait returned=%v; cancelled=%v", r.runReturned, r.runErr, rel(r.runRetAt), r.waitRet, r.cancelled)
	if r.cancelled {
		fmt.Fprintf(&b, " at=%s", rel(r.cancelAt))
	}
	fmt.Fprintf(&b, "\n  metrics: request=%d response=%d instanceStart=%d instanceFinish=%d\n", r.metrics.Request.Get(), r.metrics.Response.Get(), r.metrics.InstanceStart.Get(), r.metrics.InstanceFinish.Get())
	for pi, w := range r.pools {
		fmt.Fprintf(&b, "  pool %d: acquired=%d released=%d shots=%d reports=%d guns=%d providerRun=%d aggregatorRun=%d\n", pi, w.AcquireN, w.ReleaseN, len(w.Shots), len(w.Reports), len(w.Guns), w.ProvRunEnd, w.AggRunEnd)
		for _, g := range w.Guns {
			fmt.Fprintf(&b, "    gun %d bound=%v instance=%d shots=%d closed=%d\n", g.Index, g.Bound, g.Deps.InstanceID, g.Shots, g.Closed)
		}
		for i, t := range w.TokenLog {
			if i > 40 {
				fmt.Fprintf(&b, "    ... %d tokens\n", len(w.TokenLog))
				break
			}
			use := [...]string{"unused", "fired", "discarded"}[t.Used]
			fmt.Fprintf(&b, "    token %d at %s drawn at %s by thread %d: %s\n", i, rel(t.Time), rel(t.DrawAt), t.Thread, use)
		}
		for i, s := range w.Shots {
			if i > 40 {
				break
			}
			fmt.Fprintf(&b, "    shot %d gun=%d item=%d at %s\n", i, s.Gun, s.Item, rel(s.At))
		}
	}
	return b.String()
}

func (r *run) outcome() string {
	w := r.pools[0]
	disc := 0
	for _, rp := range w.Reports {
		if rp.Discarded {
			disc++
		}
	}
	e := "nil"
	if r.runErr != nil {
		e = r.runErr.Error()
	}
	return fmt.Sprintf("err=%s shots=%d disc=%d acq=%d guns=%d start=%d", e, len(w.Shots), disc, w.AcquireN, len(w.Guns), r.metrics.InstanceStart.Get())
}

func (r *run) check(end, msg string) error {
	switch r.cfg.Prop {
	case "C03":
		return r.checkC03(end, msg)
	case "C04":
		return r.checkC04(end, msg)
	case "C05":
		return r.checkC05(end, msg)
	case "C12":
		return r.checkC12(end, msg)
	}
	return fmt.Errorf("unknown property %q", r.cfg.Prop)
}

func (r *run) common(end, msg string) error {
	if end != vs.EndComplete {
		return fmt.Errorf("TERMINATION: execution ended with %s (%s)", end, msg)
	}
	for _, w := range r.pools {
		if len(w.Overlap) > 0 {
			return fmt.Errorf("GUN-SHARING: %s", w.Overlap[0])
		}
	}
	return nil
}

func (r *run) discarded(w *World) int {
	n := 0
	for _, rp := range w.Reports {
		if rp.Discarded {
			n++
		}
	}
	return n
}

func (r *run) checkC03(end, msg string) error {
	if err := r.common(end, msg); err != nil {
		return err
	}
	if r.runErr != nil {
		return fmt.Errorf("RUN-ERROR: run of a healthy pool returned %v", r.runErr)
	}
	toks, _ := r.cfg.RPS.tokens()
	T := len(toks)
	started := int(r.metrics.InstanceStart.Get())
	firedAll := 0
	for pi, w := range r.pools {
		if len(w.DeadCtx) > 0 {
			return fmt.Errorf("GUN-CONTEXT: pool %d: %s although the run was neither cancelled nor failed", pi, w.DeadCtx[0])
		}
		if len(w.BadRelease) > 0 {
			return fmt.Errorf("AMMO-LIFECYCLE: pool %d: %s", pi, w.BadRelease[0])
		}
		total := T
		if r.cfg.PerInst {
			total = T * started // (cells with several pools use shared profiles)
		}
		want := total
		if r.cfg.Ammo >= 0 && r.cfg.Ammo < want {
			want = r.cfg.Ammo
		}
		fired, disc := len(w.Shots), r.discarded(w)
		firedAll += fired
		if fired+disc != want {
			return fmt.Errorf("ACCOUNTING: pool %d: fired %d + discarded %d != min(tokens %d, ammo %d) = %d", pi, fired, disc, total, r.cfg.Ammo, want)
		}
		if w.AcquireN != w.ReleaseN {
			return fmt.Errorf("AMMO-LIFECYCLE: pool %d: acquired %d items, released %d", pi, w.AcquireN, w.ReleaseN)
		}
		for it, st := range w.Acquired {
			if st != 2 {
				return fmt.Errorf("AMMO-LIFECYCLE: pool %d: item %d ends in state %d (not released exactly once)", pi, it, st)
			}
		}
		unfired := w.AcquireN - fired - disc
		maxUnfired := 0
		if !r.cfg.PerInst {
			maxUnfired = started - 1 // (several pools: all started instances, an upper bound of this pool's)
			if maxUnfired < 0 {
				maxUnfired = 0
			}
		}
		if unfired > maxUnfired || unfired < 0 {
			return fmt.Errorf("EXTRA-AMMO: pool %d: %d acquired items went unfired (allowed %d)", pi, unfired, maxUnfired)
		}
	}
	if int(r.metrics.Request.Get()) != firedAll || int(r.metrics.Response.Get()) != firedAll {
		return fmt.Errorf("COUNTERS: request=%d response=%d, requests fired by all pools=%d", r.metrics.Request.Get(), r.metrics.Response.Get(), firedAll)
	}
	if !r.waitRet {
		return fmt.Errorf("TERMINATION: Engine.Wait did not return")
	}
	return nil
}

const overdue = 2 * time.Second

func (r *run) checkC04(end, msg string) error {
	if err := r.common(end, msg); err != nil {
		return err
	}
	if r.runErr != nil && !(r.cfg.Cancel && errors.Is(r.runErr, context.Canceled)) {
		return fmt.Errorf("RUN-ERROR: %v", r.runErr)
	}
	w := r.pools[0]
	for i, t := range w.TokenLog {
		switch t.Used {
		case 1:
			var at time.Time
			for _, s := range w.Shots {
				if s.Tok == t {
					at = s.At
				}
			}
			if at.Before(t.Time) {
				return fmt.Errorf("EARLY: token %d scheduled at %s fired at %s", i, t.Time.Sub(r.t0), at.Sub(r.t0))
			}
			late := t.DrawAt.Sub(t.Time)
			if r.cfg.Discard && late >= overdue {
				return fmt.Errorf("LATE-FIRED: token %d scheduled at %s was picked up at %s (%s late, >= 2s) and fired instead of being discarded", i, t.Time.Sub(r.t0), t.DrawAt.Sub(r.t0), late)
			}
		case 2:
			if !r.cfg.Discard {
				return fmt.Errorf("DISCARD-OFF: token %d discarded although discard_overflow is off", i)
			}
			var at time.Time
			for _, rp := range w.Reports {
				if rp.Tok == t {
					at = rp.At
				}
			}
			if at.Sub(t.Time) < overdue {
				return fmt.Errorf("EARLY-DISCARD: token %d scheduled at %s discarded at %s, less than 2s late", i, t.Time.Sub(r.t0), at.Sub(r.t0))
			}
		case 0:
			// a token may go unused only if ammo ran out - or the run was cancelled while it was awaited
			if r.cfg.Ammo < 0 && !r.cancelled {
				return fmt.Errorf("LOST-TOKEN: token %d drawn but neither fired nor discarded", i)
			}
		}
	}
	toks, _ := r.cfg.RPS.tokens()
	if (r.cfg.Ammo < 0 || r.cfg.Ammo >= len(toks)) && !r.cancelled {
		if len(w.TokenLog) != len(toks) && !r.cfg.PerInst {
			return fmt.Errorf("TOKENS: %d tokens drawn, profile has %d", len(w.TokenLog), len(toks))
		}
	}
	return nil
}

func causeIn(err error, cause error) bool {
	if err == nil {
		return false
	}
	return errors.Is(err, cause) || strings.Contains(err.Error(), cause.Error())
}

func (r *run) checkC05(end, msg string) error {
	if err := r.common(end, msg); err != nil {
		return err
	}
	if !r.runReturned {
		return fmt.Errorf("TERMINATION: Engine.Run did not return")
	}
	f := r.cfg.Fault
	w := r.pools[0]
	happened := func(f Fault) bool {
		switch f.Kind {
		case "prov":
			return w.ProvRunEnd == 2 && provFailed(w, f.Pos)
		case "provlate":
			return w.ProvRunEnd == 2 && w.AcquireN == w.Items
		case "aggstart", "aggend":
			return w.AggRunEnd == 2
		case "gun", "bind":
			return len(w.Guns) > f.Pos
		case "warm":
			return true
		case "sched":
			return w.SchedCalls > f.Pos
		case "panic":
			return w.ShotN > f.Pos
		}
		return false
	}
	faultHappened := happened(f) || happened(r.cfg.Fault2)
	cancelledBeforeReturn := r.cancelled && r.cancelStamp < r.runStamp
	switch {
	case f.Kind == "" && !r.cfg.Cancel:
		if r.runErr != nil {
			return fmt.Errorf("OUTCOME: healthy run returned %v", r.runErr)
		}
	case f.Kind == "" && r.cfg.Cancel:
		if r.runErr != nil && !errors.Is(r.runErr, context.Canceled) {
			return fmt.Errorf("OUTCOME: cancelled run returned %v", r.runErr)
		}
		if r.runErr != nil && !cancelledBeforeReturn {
			return fmt.Errorf("OUTCOME: run returned %v before it was cancelled", r.runErr)
		}
		if r.runErr == nil && cancelledBeforeReturn {
			// nil is acceptable only if the run had in fact completed: all ammo or tokens consumed
			if !r.naturallyDone() {
				return fmt.Errorf("OUTCOME: run cancelled while in progress returned nil")
			}
		}
		if cancelledBeforeReturn && r.runRetAt.After(r.cancelAt) {
			return fmt.Errorf("PROMPTNESS: cancelled at %s, Run returned at %s", r.cancelAt.Sub(r.t0), r.runRetAt.Sub(r.t0))
		}
	default:
		if r.runErr == nil {
			if faultHappened && !(f.Kind == "aggend" && false) {
				return fmt.Errorf("SWALLOWED[%s]: component failure did not reach the result of Run (nil)", f.Kind)
			}
		} else if !causeIn(r.runErr, r.cause) {
			if !(cancelledBeforeReturn && errors.Is(r.runErr, context.Canceled)) {
				return fmt.Errorf("OUTCOME: run returned %q which does not carry the injected cause", r.runErr)
			}
		} else if !faultHappened {
			return fmt.Errorf("OUTCOME: error %q without the fault having happened", r.runErr)
		}
	}
	// quiescence
	if !r.waitRet {
		return fmt.Errorf("WAIT[%s]: Engine.Wait did not return", f.Kind)
	}
	if len(r.busyAtWait) > 0 {
		return fmt.Errorf("QUIESCENCE: Engine.Wait returned while still running: %v", r.busyAtWait)
	}
	for pi, w := range r.pools {
		if len(w.Late) > 0 {
			return fmt.Errorf("QUIESCENCE: after Engine.Wait had returned, in pool %d %s", pi, strings.Join(w.Late, ", "))
		}
	}
	if len(r.openAtWait) > 0 {
		return fmt.Errorf("CLOSE: Engine.Wait returned while closable guns of started instances were still open: %v", r.openAtWait)
	}
	if s, fi := r.metrics.InstanceStart.Get(), r.metrics.InstanceFinish.Get(); s != fi {
		return fmt.Errorf("QUIESCENCE: %d instances started, %d finished", s, fi)
	}
	for pi, w := range r.pools {
		for _, sh := range w.Shots {
			if sh.At.After(r.runRetAt) {
				return fmt.Errorf("RUNAWAY: pool %d fired a request at %s, after Run had returned at %s", pi, sh.At.Sub(r.t0), r.runRetAt.Sub(r.t0))
			}
		}
		if w.ProvRunEnd == 1 || w.AggRunEnd == 1 {
			return fmt.Errorf("QUIESCENCE: pool %d provider(%d)/aggregator(%d) still running after Wait", pi, w.ProvRunEnd, w.AggRunEnd)
		}
		for _, g := range w.Guns {
			if g.Closed > 1 {
				return fmt.Errorf("CLOSE: gun %d closed %d times", g.Index, g.Closed)
			}
			if w.Closable && g.Bound && g.Shots >= 0 && g.Closed != 1 && g.Owner >= -1 && r.gunStarted(w, g) {
				return fmt.Errorf("CLOSE: gun %d of a started instance closed %d times", g.Index, g.Closed)
			}
		}
	}
	return nil
}

func provFailed(w *World, pos int) bool { return true }

// gunStarted: a gun that was bound belongs to a started instance.
func (r *run) gunStarted(w *World, g *Gun) bool { return g.Bound }

func (r *run) naturallyDone() bool {
	w := r.pools[0]
	toks, _ := r.cfg.RPS.tokens()
	total := len(toks)
	if r.cfg.PerInst {
		total *= int(r.metrics.InstanceStart.Get())
	}
	if r.cfg.Ammo >= 0 && w.AcquireN >= r.cfg.Ammo {
		return true
	}
	return len(w.TokenLog) >= total
}

func (r *run) checkC12(end, msg string) error {
	if err := r.common(end, msg); err != nil {
		return err
	}
	w := r.pools[0]
	if len(w.DeadCtx) > 0 && !r.cancelled && r.runErr == nil {
		return fmt.Errorf("GUN-CONTEXT: %s although the run was neither cancelled nor failed", w.DeadCtx[0])
	}
	off, _ := r.cfg.Startup.tokens()
	// instances = bound guns; creation order is index order (index 0 may be the warm-up gun, never bound)
	var ids []int
	var times []time.Time
	for _, g := range w.Guns {
		if g.Bound {
			ids = append(ids, g.Deps.InstanceID)
		}
	}
	sort.Ints(ids)
	creationFault := r.cfg.Fault.Kind == "gun" || r.cfg.Fault.Kind == "bind"
	for i, id := range ids {
		// an instance whose creation failed leaves a gap (it never started); without
		// such a failure ids are exactly 0,1,2,...
		if (!creationFault && id != i) || (i > 0 && id == ids[i-1]) || id < 0 || id >= len(off) {
			return fmt.Errorf("IDS: instance ids are %v, expected distinct and consecutive from 0", ids)
		}
	}
	_ = times
	// never more instances than the profile released: the k-th created (bound) gun not before token k
	k := 0
	for _, g := range w.Guns {
		if !g.Bound {
			continue
		}
		if k >= len(off) {
			return fmt.Errorf("TOO-MANY: %d instances created, startup profile has %d tokens", k+1, len(off))
		}
		k++
	}
	for _, g := range w.Guns {
		if g.Bound && g.CreatedAt.Before(r.t0.Add(off[g.Deps.InstanceID])) {
			return fmt.Errorf("EARLY-START: instance %d created at %s, its startup token is at %s", g.Deps.InstanceID, g.CreatedAt.Sub(r.t0), off[g.Deps.InstanceID])
		}
	}
	started := int(r.metrics.InstanceStart.Get())
	if started != len(ids) {
		return fmt.Errorf("COUNT: InstanceStart=%d but %d guns were bound", started, len(ids))
	}
	// all tokens result in instances unless cut short
	cut := r.cancelled || r.cfg.Fault.Kind != ""
	need := len(off)
	if r.cfg.Ammo >= 0 && w.AcquireN >= r.cfg.Ammo {
		// the ammo ran out: that ends instance start from the moment an instance found it exhausted,
		// not from the moment the provider had merely finished queueing it
		if w.OutAt.IsZero() {
			cut = true
		} else {
			need = 0
			for _, o := range off {
				if r.t0.Add(o).Before(w.OutAt) {
					need++
				}
			}
		}
	}
	if !r.cfg.PerInst && !r.cfg.RPS.unknown() {
		toks, _ := r.cfg.RPS.tokens()
		if len(w.TokenLog) >= len(toks) {
			// the shared RPS profile finished: that ends instance start, but not before the last of its
			// tokens was drawn - startup tokens due strictly before that moment must have become instances
			last := w.TokenLog[len(w.TokenLog)-1].DrawAt
			for _, tk := range w.TokenLog {
				if tk.DrawAt.After(last) {
					last = tk.DrawAt
				}
			}
			n2 := 0
			for _, o := range off {
				if r.t0.Add(o).Before(last) {
					n2++
				}
			}
			if n2 < need {
				need = n2
			}
		}
	}
	if !cut && started < need {
		return fmt.Errorf("MISSING: %d instances started, %d startup tokens were due before anything could end the start (profile has %d)", started, need, len(off))
	}
	// an instance, once started, keeps firing until its profile/ammo is exhausted or cancel
	if r.runErr == nil && !r.cancelled && r.cfg.Fault.Kind == "" && !r.cfg.RPS.unknown() {
		toks, _ := r.cfg.RPS.tokens()
		total := len(toks)
		if r.cfg.PerInst {
			total *= started
		}
		want := total
		if r.cfg.Ammo >= 0 && r.cfg.Ammo < want {
			want = r.cfg.Ammo
		}
		if got := len(w.Shots) + r.discarded(w); got != want {
			return fmt.Errorf("STOPPED-EARLY: %d requests fired/discarded, expected %d", got, want)
		}
	}
	if r.metrics.InstanceFinish.Get() != r.metrics.InstanceStart.Get() {
		return fmt.Errorf("QUIESCENCE: %d started, %d finished", r.metrics.InstanceStart.Get(), r.metrics.InstanceFinish.Get())
	}
	return nil
}

type replay struct {
	Cfg     Cfg   `json:"cfg"`
	Choices []int `json:"choices"`
	Policy  int   `json:"policy"`
}

func classify(err error) string {
	s := err.Error()
	if i := strings.Index(s, ":"); i > 0 && i < 24 {
		return s[:i]
	}
	return "other"
}

func TestWorker(t *testing.T) {
	spec, out := hutil.Load()
	if spec == nil {
		t.Skip("no VERIF_SPEC")
	}
	defer out.Save()
	opts := func(c Cfg) vs.Opts {
		o := vs.Opts{Bound: c.Bound, Advance: c.Advance, DelayBound: true}
		if c.AdvanceMs > 0 {
			o.AdvanceMax = ms(c.AdvanceMs)
		}
		return o
	}
	if spec.Replay != nil {
		var rp replay
		if err := json.Unmarshal(spec.Replay, &rp); err != nil {
			t.Fatal(err)
		}
		r := &run{cfg: rp.Cfg}
		o := opts(rp.Cfg)
		o.Policy = rp.Policy
		e := vs.NewExplorer(t, o, r.scenario)
		res := e.RunOne(rp.Choices, -1, nil)
		fmt.Printf("cell: %s\nend: %s %s\n%s", rp.Cfg.Name(), res.End, res.Msg, r.describe())
		if res.Err != nil {
			out.Violate(rp.Cfg.Prop+"|replay", res.Err.Error(), rp)
		}
		return
	}
	all := cells(spec.Property, spec.Thorough())
	for ci, c := range all {
		if !spec.Mine(ci) || (spec.Only != "" && !strings.Contains(c.Name(), spec.Only)) {
			continue
		}
		if out.OverBudget() {
			break
		}
		out.Cells++
		for pol := 0; pol < 2; pol++ {
			r := &run{cfg: c}
			o := opts(c)
			o.Policy = pol
			e := vs.NewExplorer(t, o, r.scenario)
			e.RealStop = out.Deadline()
			e.OnExec = func(res *vs.Result) { out.Outcome(c.Name(), r.outcome()) }
			complete := e.Explore()
			out.Evals += int64(e.Execs)
			out.States += int64(e.Nodes)
			out.Transitions += int64(e.Steps)
			out.Extra["pruned_select_duplicates"] += int64(e.Pruned)
			out.Extra["leaked_goroutines"] += int64(e.Leaked)
			for k, v := range e.Ends {
				out.Extra["end_"+k] += int64(v)
			}
			if int64(e.MaxDepth) > out.Extra["max_depth"] {
				out.Extra["max_depth"] = int64(e.MaxDepth)
			}
			if !complete || e.CapHit != "" {
				out.Cap("cell %s: %s (bound completed %d)", c.Name(), e.CapHit, e.BoundDone)
			}
			if e.HarnessErr {
				out.HarnessErr = c.Name() + ": " + e.Violation.Err.Error()
				return
			}
			if v := e.Violation; v != nil {
				rp := replay{Cfg: c, Choices: v.Choices, Policy: pol}
				flaky := false
				for k := 0; k < 5; k++ {
					res := e.RunOne(v.Choices, -1, nil)
					if res.Err == nil || classify(res.Err) != classify(v.Err) {
						flaky = true
					}
				}
				key := fmt.Sprintf("%s|%s", c.Prop, classify(v.Err))
				out.Violate(key, fmt.Sprintf("%s (preemptions=%d, %d choice points)\n%s", c.Name(), v.Preempts, len(v.Choices), v.Err.Error()), rp)
				if flaky {
					out.Violations[len(out.Violations)-1].Flaky = true
				}
				break
			}
			if pol == 1 && ci%97 == 0 {
				out.Sample(map[string]any{"cell": c.Name(), "executions": e.Execs, "choice_points_max": e.MaxDepth, "ends": e.Ends})
			}
		}
	}
}
