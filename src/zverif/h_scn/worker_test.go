// Package h_scn decides C15: scenario programs x response histories executed
// by the real scenario provider and the real HTTP ScenarioGun (scripted Client)
// under the vs scheduler on the fake clock, compared with a reference
// interpreter of the documented semantics.
package h_scn

import (
	"reflect"
	"context"
	"encoding/json"
	"fmt"
	"regexp"
	"sort"
	"strconv"
	"strings"
	"sync"
	"testing"
	"time"

	"github.com/spf13/afero"
	grpcimport "github.com/yandex/pandora/components/grpc/import"
	phttp "github.com/yandex/pandora/components/guns/http"
	httpscenario "github.com/yandex/pandora/components/guns/http_scenario"
	phttpimport "github.com/yandex/pandora/components/phttp/import"
	"github.com/yandex/pandora/core"
	"github.com/yandex/pandora/core/config"
	coreimport "github.com/yandex/pandora/core/import"
	"github.com/yandex/pandora/zverif/hutil"
	"github.com/yandex/pandora/zverif/vs"
)

var (
	memfs    = hutil.NewStrictFs()
	initOnce sync.Once
)

func initPlugins() {
	initOnce.Do(func() {
		coreimport.Import(memfs)
		phttpimport.Import(memfs)
		grpcimport.Import(memfs)
		_ = afero.WriteFile(memfs, "/shop.json", []byte(`{"users":[{"user_id":71},{"user_id":72},{"user_id":73}]}`), 0o644)
		_ = afero.WriteFile(memfs, "/users.csv", []byte("user_id,name\n11,a\n12,b\n13,c\n14,d\n15,e\n"), 0o644)
	})
}

const nUsers = 5

func deepCopy(v any) any {
	switch x := v.(type) {
	case map[string]any:
		m := make(map[string]any, len(x))
		for k, e := range x {
			m[k] = deepCopy(e)
		}
		return m
	case []any:
		l := make([]any, len(x))
		for i, e := range x {
			l[i] = deepCopy(e)
		}
		return l
	}
	return v
}

type Dev struct {
	Pos  int    `json:"pos"` // 1-based index of the executed request within the run
	Kind string `json:"kind"`
}

type Cell struct {
	Mode      string   `json:"mode"` // exec | weights | next
	Program   []string `json:"program,omitempty"`
	MinWait   int      `json:"min_wait_ms,omitempty"`
	Devs      []Dev    `json:"devs,omitempty"`
	W1        int      `json:"w1,omitempty"`
	W2        int      `json:"w2,omitempty"`
	Third     bool     `json:"third,omitempty"` // weights mode: a third scenario s3 with weight W3
	W3        int      `json:"w3,omitempty"`
	Instances int      `json:"instances"`
	Shots     int      `json:"shots"`
	Bound     int      `json:"bound"`
}

func (c Cell) Name() string {
	w3 := ""
	if c.Third {
		w3 = fmt.Sprintf(",%d", c.W3)
	}
	return fmt.Sprintf("%s|%v|minwait=%d|devs=%v|w=%d,%d%s|inst=%d|shots=%d", c.Mode, c.Program, c.MinWait, c.Devs, c.W1, c.W2, w3, c.Instances, c.Shots)
}

// namesYAML: two scenarios whose names and request names join to the same text (shop + cart_add,
// shop_cart + add), headers that are called like the other rendered parts of a request (url, body), and
// two variables captured from one response header through different modifier chains.
const namesYAML = `variable_sources:
  - name: users
    type: file/csv
    file: /users.csv
    fields: [user_id, name]
    ignore_first_line: true
    delimiter: ','
requests:
  - name: cart_add
    method: POST
    uri: '/cart_add/{{.request.cart_add.preprocessor.uid}}'
    headers: {X-Who: 'shop-{{.request.cart_add.preprocessor.uid}}', url: 'ref-{{.request.cart_add.preprocessor.uid}}', body: 'hb-{{.request.cart_add.preprocessor.uid}}'}
    body: 'first {{.request.cart_add.preprocessor.uid}}'
    preprocessor: {mapping: {uid: "source.users[next].user_id"}}
  - name: add
    method: PUT
    uri: '/add/{{.request.add.preprocessor.uid}}'
    headers: {X-Who: 'cart-{{.request.add.preprocessor.uid}}', url: 'other-{{.request.add.preprocessor.uid}}', body: 'ob-{{.request.add.preprocessor.uid}}'}
    body: 'second {{.request.add.preprocessor.uid}}'
    preprocessor: {mapping: {uid: "source.users[next].user_id"}}
  - name: hdr
    method: GET
    uri: /hdr
    postprocessors:
      - type: var/header
        mapping:
          scheme: X-Auth|substr(0,6)|lower
          token: x-auth|substr(7)
          whole: X-Auth
          rid: X-Request-ID|upper|replace(RID,r)
  - name: use
    method: GET
    uri: '/use?s={{.request.hdr.postprocessor.scheme}}&t={{.request.hdr.postprocessor.token}}&r={{.request.hdr.postprocessor.rid}}'
    headers: {X-Whole: '{{.request.hdr.postprocessor.whole}}'}
scenarios:
  - name: shop
    requests: [cart_add, hdr, use]
  - name: shop_cart
    requests: [add, hdr]
`

func (c Cell) yaml() string {
	if c.Mode == "names" {
		return namesYAML
	}
	var sb strings.Builder
	sb.WriteString(`variable_sources:
  - name: users
    type: file/csv
    file: /users.csv
    fields: [user_id, name]
    ignore_first_line: true
    delimiter: ','
  - name: shop
    type: file/json
    file: /shop.json
requests:
  - name: a
    method: POST
    uri: /a
    headers: {Content-Type: application/json}
    body: '{"u": {{.request.a.preprocessor.uid}}}'
    preprocessor: {mapping: {uid: "source.users[next].user_id"}}
    postprocessors:
      - type: var/jsonpath
        mapping: {token: $.token}
      - type: assert/response
        body: ["fine"]
        headers: {content-type: json, X-Request-ID: rid, ETag: v1}
  - name: b
    method: GET
    uri: '/b?t={{.request.a.postprocessor.token}}'
    headers: {X-Tok: "{{.request.a.postprocessor.token}}"}
  - name: c
    method: GET
    uri: /c
    postprocessors:
      - type: assert/response
        size: {val: 3, op: ">"}
        headers: {x-request-id: "rid-"}
  - name: e
    method: GET
    uri: '/e/{{index .source.shop.users 5}}'
  - name: f
    method: GET
    uri: /f
    postprocessors:
      - type: assert/response
        body: ["fine"]
      - type: var/jsonpath
        mapping: {tk: $.token}
      - type: var/header
        mapping: {ct: Content-Type}
  - name: g
    method: GET
    uri: '/g/{{.request.g.preprocessor.i1}}/{{.request.g.preprocessor.i2}}/{{.request.g.preprocessor.i3}}/{{.request.g.preprocessor.i4}}'
    preprocessor: {mapping: {i1: "source.users[-7].user_id", i2: "source.users[12].user_id", i3: "source.users[-5].user_id", i4: "source.users[last].user_id"}}
  - name: p
    method: GET
    uri: '/p/{{.request.a.postprocessor.token'
  - name: q
    method: POST
    uri: /q
    headers: {X-Bad: '{{nosuchfunction 1}}'}
    body: 'x'
  - name: d
    method: POST
    uri: /d
    body: '{"u": {{.request.d.preprocessor.uid}}, "v": {{.request.d.preprocessor.vid}}}'
    preprocessor: {mapping: {uid: "source.users[next].user_id", vid: "source.shop.users[next].user_id"}}
scenarios:
`)
	prog := c.Program
	if c.Mode != "exec" {
		prog = []string{"a"}
	}
	if c.Mode == "next2" {
		prog = []string{"d"}
	}
	q := make([]string, len(prog))
	for i, p := range prog {
		q[i] = strconv.Quote(p)
	}
	fmt.Fprintf(&sb, "  - name: s1\n    requests: [%s]\n", strings.Join(q, ", "))
	if c.MinWait > 0 {
		fmt.Fprintf(&sb, "    min_waiting_time: %d\n", c.MinWait)
	}
	if c.Mode == "weights" {
		if c.W1 > 0 {
			fmt.Fprintf(&sb, "    weight: %d\n", c.W1)
		}
		sb.WriteString("  - name: s2\n    requests: [\"c\"]\n")
		if c.W2 > 0 {
			fmt.Fprintf(&sb, "    weight: %d\n", c.W2)
		}
		if c.Third {
			sb.WriteString("  - name: s3\n    requests: [\"c\", \"c\"]\n")
			if c.W3 > 0 {
				fmt.Fprintf(&sb, "    weight: %d\n", c.W3)
			}
		}
	}
	return sb.String()
}

// ---- reference interpreter

type step struct {
	name  string
	sleep time.Duration
}

var shootRe = regexp.MustCompile(`^(\w+)(?:\((\d*)(?:,\s*(\d+))?\))?$`)

func expand(prog []string) []step {
	var out []step
	for _, p := range prog {
		m := shootRe.FindStringSubmatch(p)
		name := m[1]
		cnt := 1
		if m[2] != "" {
			cnt, _ = strconv.Atoi(m[2])
		}
		sl := 0
		if m[3] != "" {
			sl, _ = strconv.Atoi(m[3])
		}
		if name == "sleep" {
			out[len(out)-1].sleep += time.Duration(cnt) * time.Millisecond
			continue
		}
		for i := 0; i < cnt; i++ {
			out = append(out, step{name, time.Duration(sl) * time.Millisecond})
		}
	}
	return out
}

type wantShot struct {
	sent    []Sent
	samples []Sample // Proto -1: failed step
	elapsed time.Duration
	ok      bool
}

func (c Cell) kindAt(n int, name string) string {
	for _, d := range c.Devs {
		if d.Pos == n {
			return d.Kind
		}
	}
	if name == "a" || name == "f" {
		return "tok"
	}
	return "ok200"
}

// interpret one shot; n is the global request counter before the shot, next the [next] cursor of scenario s1.
func (c Cell) interpret(n *int, next *int) wantShot {
	var w wantShot
	token := "<no value>"
	for _, st := range expand(c.Program) {
		if st.name == "e" || st.name == "p" || st.name == "q" {
			// the URI template fails while it is rendered (after part of it has been produced): the step
			// fails before anything is sent, the shot stops, nothing of it may reach later renderings
			w.samples = append(w.samples, Sample{Tag: "s1." + st.name, Proto: -1})
			return w
		}
		*n++
		kind := c.kindAt(*n, st.name)
		s := Sent{}
		switch st.name {
		case "a":
			uid := 11 + (*next % nUsers)
			*next++
			s = Sent{Method: "POST", URI: "/a", Body: fmt.Sprintf(`{"u": %d}`, uid)}
		case "b":
			s = Sent{Method: "GET", URI: "/b?t=" + token}
		case "c":
			s = Sent{Method: "GET", URI: "/c"}
		case "f":
			s = Sent{Method: "GET", URI: "/f"}
		case "g":
			// integer indices wrap around in both directions (5 rows: -7 -> row 3, 12 -> row 2, -5 -> row 0), last -> row 4
			s = Sent{Method: "GET", URI: "/g/14/13/11/15"}
		}
		w.sent = append(w.sent, s)
		failed := false
		proto := 200
		switch kind {
		case "err":
			failed = true
		case "bad":
			failed = true
		case "s500":
			proto = 500
		}
		if failed {
			w.samples = append(w.samples, Sample{Tag: "s1." + st.name, Proto: -1})
			return w
		}
		if st.name == "a" {
			token = fmt.Sprintf("T%d", *n)
		}
		w.samples = append(w.samples, Sample{Tag: "s1." + st.name, Proto: proto})
		w.elapsed += st.sleep
	}
	if mw := time.Duration(c.MinWait) * time.Millisecond; w.elapsed < mw {
		w.elapsed = mw
	}
	w.ok = true
	return w
}

// ---- execution

type run struct {
	cell Cell
	w    *World
	cerr error
}

func (r *run) scenario(x *vs.X) func(end, msg string) error {
	c := r.cell
	_ = afero.WriteFile(memfs, "/sc.yaml", []byte(c.yaml()), 0o644)
	conf := map[string]any{"type": "http/scenario", "file": "/sc.yaml"}
	switch c.Mode {
	case "weights":
		conf["passes"] = 1
	default:
		conf["limit"] = c.Shots
	}
	var h struct{ Ammo core.Provider }
	err := config.DecodeAndValidate(map[string]any{"ammo": deepCopy(conf)}, &h)
	r.cerr = err
	r.w = nil
	if err != nil {
		return func(end, msg string) error { return fmt.Errorf("HARNESS: scenario rejected: %v\n%s", err, c.yaml()) }
	}
	w := &World{T0: time.Now()}
	w.Script = func(n int, s Sent) Resp {
		name := strings.TrimPrefix(strings.SplitN(s.URI, "?", 2)[0], "/")
		return Resp{Kind: c.kindAt(n, name)}
	}
	r.w = w
	gconf := phttp.DefaultHTTPGunConfig()
	gconf.Target = "127.0.0.1:80"
	gconf.TargetResolved = "127.0.0.1:80"
	var guns []*httpscenario.ScenarioGun
	for i := 0; i < c.Instances; i++ {
		i := i
		g := httpscenario.ZvNewGun(func(phttp.ClientConfig, string) phttp.Client { return &client{w: w, inst: i} }, gconf)
		if err := g.Bind(&agg{w: w, inst: i}, core.GunDeps{Ctx: context.Background(), Log: nopLog, PoolID: "p", InstanceID: i}); err != nil {
			panic(err)
		}
		guns = append(guns, g)
	}
	ctx, cancel := context.WithCancel(context.Background())
	x.OnAbort(cancel)
	x.Deadline = time.Now().Add(time.Hour)
	vs.Go("driver", func() { Start(ctx, cancel, w, h.Ammo, guns) })
	return func(end, msg string) error {
		defer cancel()
		if err := r.check(end, msg); err != nil {
			return fmt.Errorf("%v\n%s", err, r.describe())
		}
		return nil
	}
}

func (r *run) describe() string {
	var sb strings.Builder
	w := r.w
	for i, s := range w.Sent {
		fmt.Fprintf(&sb, "  request %d (instance %d shot %d) at %v: %s %s body=%q X-Tok=%q\n", i+1, s.Inst, s.Shot, s.At, s.Method, s.URI, s.Body, s.Header.Get("X-Tok"))
	}
	for _, s := range w.Samples {
		fmt.Fprintf(&sb, "  sample (instance %d shot %d) at %v: tag=%q proto=%d err=%v\n", s.Inst, s.Shot, s.At, s.Tag, s.Proto, s.Err)
	}
	for _, s := range w.Shots {
		fmt.Fprintf(&sb, "  shot of %s by instance %d: %v .. %v\n", s.Scenario, s.Inst, s.Start, s.End)
	}
	return sb.String()
}

func (r *run) check(end, msg string) error {
	w, c := r.w, r.cell
	if len(w.Panics) > 0 {
		return fmt.Errorf("PANIC: %s", w.Panics[0])
	}
	if end == vs.EndCap {
		return nil
	}
	if end != vs.EndComplete {
		return fmt.Errorf("HANG: execution ended with %s (%s)", end, msg)
	}
	if w.RunErr != nil {
		return fmt.Errorf("RUNERR: provider returned %v", w.RunErr)
	}
	byName := map[string]string{}
	for i, d := range w.Defs {
		name := strings.SplitN(d, " ", 2)[0]
		if first, ok := byName[name]; !ok {
			byName[name] = d
		} else if first != d {
			return fmt.Errorf("ISOLATION: the definition of scenario %s handed to shot %d differs from the one first handed out: a shot altered the shared definition\n first: %s\n now:   %s", name, i+1, first, d)
		}
	}
	switch c.Mode {
	case "exec":
		return r.checkExec()
	case "weights":
		return r.checkWeights()
	case "next":
		return r.checkNext()
	case "next2":
		return r.checkNext2()
	case "names":
		return r.checkNames()
	}
	return nil
}

// checkNames: every request of every shot is rendered from its own scenario's and its own request's
// templates (URI, each header, body), and every variable captured from a response header reaches the
// later step, also when several variables come from one header.
func (r *run) checkNames() error {
	w, c := r.w, r.cell
	if len(w.Shots) != c.Shots {
		return fmt.Errorf("SHOTS: %d shots made, limit is %d", len(w.Shots), c.Shots)
	}
	scen := map[[2]int]string{} // (instance, shot of that instance) -> scenario
	per := map[int]int{}
	byInst := map[int][]ShotRec{}
	for _, sh := range w.Shots {
		byInst[sh.Inst] = append(byInst[sh.Inst], sh)
	}
	for inst, l := range byInst {
		sort.SliceStable(l, func(i, j int) bool { return l[i].Start < l[j].Start })
		for k, sh := range l {
			scen[[2]int{inst, k + 1}] = sh.Scenario
			per[inst]++
		}
	}
	cnt := map[string]int{}
	seq := map[[2]int][]Sent{}
	for _, s := range w.Sent {
		k := [2]int{s.Inst, s.Shot}
		seq[k] = append(seq[k], s)
	}
	uidOf := func(uri, prefix string) (string, bool) {
		if !strings.HasPrefix(uri, prefix) {
			return "", false
		}
		u := strings.TrimPrefix(uri, prefix)
		return u, len(u) == 2
	}
	for k, name := range scen {
		cnt[name]++
		l := seq[k]
		switch name {
		case "shop_cart":
			if len(l) != 2 || l[1].URI != "/hdr" {
				return fmt.Errorf("ORDER: a shot of scenario shop_cart [add, hdr] sent %d requests", len(l))
			}
			u, ok := uidOf(l[0].URI, "/add/")
			if !ok || l[0].Method != "PUT" {
				return fmt.Errorf("RENDER: scenario shop_cart, request add was sent as %s %s; its own definition is PUT /add/<uid>", l[0].Method, l[0].URI)
			}
			if g := l[0].Header.Get("X-Who"); g != "cart-"+u {
				return fmt.Errorf("RENDER: scenario shop_cart, request add: header X-Who=%q, its own template gives %q", g, "cart-"+u)
			}
			if g := l[0].Header.Get("Url"); g != "other-"+u {
				return fmt.Errorf("RENDER: scenario shop_cart, request add: header url=%q, its own template gives %q", g, "other-"+u)
			}
			if g := l[0].Header.Get("Body"); g != "ob-"+u {
				return fmt.Errorf("RENDER: scenario shop_cart, request add: header body=%q, its own template gives %q", g, "ob-"+u)
			}
			if l[0].Body != "second "+u {
				return fmt.Errorf("RENDER: scenario shop_cart, request add: body %q, its own template gives %q", l[0].Body, "second "+u)
			}
		case "shop":
			if len(l) != 3 {
				return fmt.Errorf("ORDER: a shot of scenario shop [cart_add, hdr, use] sent %d requests", len(l))
			}
			u, ok := uidOf(l[0].URI, "/cart_add/")
			if !ok || l[0].Method != "POST" {
				return fmt.Errorf("RENDER: scenario shop, request cart_add was sent as %s %s; its own definition is POST /cart_add/<uid>", l[0].Method, l[0].URI)
			}
			if g := l[0].Header.Get("X-Who"); g != "shop-"+u {
				return fmt.Errorf("RENDER: scenario shop, request cart_add: header X-Who=%q, its own template gives %q", g, "shop-"+u)
			}
			if g := l[0].Header.Get("Url"); g != "ref-"+u {
				return fmt.Errorf("RENDER: scenario shop, request cart_add: header url=%q, its own template gives %q", g, "ref-"+u)
			}
			if g := l[0].Header.Get("Body"); g != "hb-"+u {
				return fmt.Errorf("RENDER: scenario shop, request cart_add: header body=%q, its own template gives %q", g, "hb-"+u)
			}
			if l[0].Body != "first "+u {
				return fmt.Errorf("RENDER: scenario shop, request cart_add: body %q, its own template gives %q", l[0].Body, "first "+u)
			}
			if l[1].URI != "/hdr" {
				return fmt.Errorf("ORDER: scenario shop, second request is %s", l[1].URI)
			}
			if want := "/use?s=bearer&t=abc123&r=r-1"; l[2].URI != want {
				return fmt.Errorf("VARS: scenario shop, request use was sent as %s; the values captured from the answer's headers (X-Auth: Bearer abc123, X-Request-Id: rid-1) give %s", l[2].URI, want)
			}
			if g := l[2].Header.Get("X-Whole"); g != "Bearer abc123" {
				return fmt.Errorf("VARS: scenario shop, request use: header X-Whole=%q, the captured header value is %q", g, "Bearer abc123")
			}
		default:
			return fmt.Errorf("HARNESS: unknown scenario %q", name)
		}
	}
	// one sample per executed step, tagged with the name of its own scenario and its step
	tagWant := map[string][]string{"shop": {"shop.cart_add", "shop.hdr", "shop.use"}, "shop_cart": {"shop_cart.add", "shop_cart.hdr"}}
	tags := map[[2]int][]string{}
	for _, sm := range w.Samples {
		k := [2]int{sm.Inst, sm.Shot}
		tags[k] = append(tags[k], sm.Tag)
	}
	for k, name := range scen {
		if fmt.Sprint(tags[k]) != fmt.Sprint(tagWant[name]) {
			return fmt.Errorf("TAG: the samples of a shot of scenario %s are tagged %v, scenario.step gives %v", name, tags[k], tagWant[name])
		}
	}
	if d := cnt["shop"] - cnt["shop_cart"]; c.Shots%2 == 0 && d != 0 {
		return fmt.Errorf("WEIGHTS: %d shots of two scenarios of equal weight: shop x%d, shop_cart x%d", c.Shots, cnt["shop"], cnt["shop_cart"])
	}
	return nil
}

func (r *run) checkExec() error {
	w, c := r.w, r.cell
	n, next := 0, 0
	si, mi := 0, 0
	if len(w.Shots) != c.Shots {
		return fmt.Errorf("SHOTS: %d shots made, limit is %d", len(w.Shots), c.Shots)
	}
	for k := 0; k < c.Shots; k++ {
		ws := c.interpret(&n, &next)
		for j, want := range ws.sent {
			if si >= len(w.Sent) {
				return fmt.Errorf("ORDER: shot %d: request %d of the scenario (%s %s) was not sent", k+1, j+1, want.Method, want.URI)
			}
			got := w.Sent[si]
			si++
			if got.Method != want.Method || got.URI != want.URI {
				return fmt.Errorf("ORDER: shot %d request %d is %s %s, the scenario prescribes %s %s", k+1, j+1, got.Method, got.URI, want.Method, want.URI)
			}
			if want.Body != "" && got.Body != want.Body {
				return fmt.Errorf("RENDER: shot %d request %d body %q, rendered from the data source ([next] row) it must be %q", k+1, j+1, got.Body, want.Body)
			}
			if strings.HasPrefix(want.URI, "/b") {
				tok := strings.TrimPrefix(want.URI, "/b?t=")
				if got.Header.Get("X-Tok") != tok {
					return fmt.Errorf("RENDER: shot %d request %d header X-Tok=%q, captured token is %q", k+1, j+1, got.Header.Get("X-Tok"), tok)
				}
			}
		}
		for j, want := range ws.samples {
			if mi >= len(w.Samples) {
				return fmt.Errorf("SAMPLES: shot %d: no sample for executed step %d (%s)", k+1, j+1, want.Tag)
			}
			got := w.Samples[mi]
			mi++
			if got.Shot != k+1 {
				return fmt.Errorf("SAMPLES: shot %d: extra sample %q from shot %d", k+1, got.Tag, got.Shot)
			}
			if !strings.HasPrefix(got.Tag, want.Tag) {
				return fmt.Errorf("TAG: shot %d step %d sample tagged %q, expected scenario.step %q", k+1, j+1, got.Tag, want.Tag)
			}
			if want.Proto == -1 {
				if got.Err == nil && got.Proto == 200 {
					return fmt.Errorf("FAILED-STEP: shot %d step %d failed but its sample reports success (proto %d, no error)", k+1, j+1, got.Proto)
				}
			} else if got.Proto != want.Proto || got.Err != nil {
				return fmt.Errorf("STEP: shot %d step %d (%s) reported proto=%d err=%v, expected a successful step with status %d", k+1, j+1, want.Tag, got.Proto, got.Err, want.Proto)
			}
		}
		// nothing beyond the failing step
		if si < len(w.Sent) && w.Sent[si].Shot == k+1 {
			return fmt.Errorf("STOP: shot %d: request %s %s was sent after the step that failed / beyond the scenario", k+1, w.Sent[si].Method, w.Sent[si].URI)
		}
		if mi < len(w.Samples) && w.Samples[mi].Shot == k+1 {
			return fmt.Errorf("STOP: shot %d: extra sample %q", k+1, w.Samples[mi].Tag)
		}
		sh := w.Shots[k]
		if el := sh.End - sh.Start; el != ws.elapsed {
			return fmt.Errorf("TIME: shot %d took %v of fake time, pauses and min_waiting_time of the executed steps add up to %v", k+1, el, ws.elapsed)
		}
	}
	return nil
}

func gcd(a, b int) int {
	for b != 0 {
		a, b = b, a%b
	}
	return a
}

func (r *run) checkWeights() error {
	w, c := r.w, r.cell
	w1, w2 := c.W1, c.W2
	if w1 == 0 {
		w1 = 1
	}
	if w2 == 0 {
		w2 = 1
	}
	g := gcd(w1, w2)
	w3 := 0
	if c.Third {
		w3 = c.W3
		if w3 == 0 {
			w3 = 1
		}
		g = gcd(g, w3)
	}
	cnt := map[string]int{}
	for _, s := range w.Shots {
		cnt[s.Scenario]++
	}
	if cnt["s1"] != w1/g || cnt["s2"] != w2/g || cnt["s3"] != w3/g {
		return fmt.Errorf("WEIGHTS: one pass delivered s1 x%d, s2 x%d, s3 x%d; weights %d:%d:%d give %d:%d:%d", cnt["s1"], cnt["s2"], cnt["s3"], w1, w2, w3, w1/g, w2/g, w3/g)
	}
	return nil
}

func (r *run) checkNext() error {
	w, c := r.w, r.cell
	var uids []int
	for _, s := range w.Sent {
		var u int
		if _, err := fmt.Sscanf(s.Body, `{"u": %d}`, &u); err != nil {
			return fmt.Errorf("RENDER: body %q", s.Body)
		}
		uids = append(uids, u)
	}
	if len(uids) != c.Shots {
		return fmt.Errorf("SHOTS: %d requests for %d shots", len(uids), c.Shots)
	}
	sort.Ints(uids)
	// N shots use N consecutive rows starting at row 0 (wrapping around)
	wantRows := map[int]int{}
	for i := 0; i < c.Shots; i++ {
		wantRows[11+i%nUsers]++
	}
	gotRows := map[int]int{}
	for _, u := range uids {
		gotRows[u]++
	}
	for k, v := range wantRows {
		if gotRows[k] != v {
			return fmt.Errorf("NEXT: rows used by %d shots of %d instances: %v; consecutive round-robin rows would be used %v times each", c.Shots, c.Instances, gotRows, wantRows)
		}
	}
	return nil
}

// two [next] paths in one request ending in the same indexed segment name under different parents:
// each path has a cursor of its own, so shot k (in delivery order, for one instance) uses row k of
// the 5-row source and row k of the 3-row source; with several instances the multisets are fixed.
func (r *run) checkNext2() error {
	w, c := r.w, r.cell
	var us, vs_ []int
	for _, s := range w.Sent {
		var u, v int
		if _, err := fmt.Sscanf(s.Body, `{"u": %d, "v": %d}`, &u, &v); err != nil {
			return fmt.Errorf("RENDER: body %q", s.Body)
		}
		us, vs_ = append(us, u), append(vs_, v)
	}
	if len(us) != c.Shots {
		return fmt.Errorf("SHOTS: %d requests for %d shots", len(us), c.Shots)
	}
	if c.Instances == 1 {
		for k := range us {
			if us[k] != 11+k%nUsers || vs_[k] != 71+k%3 {
				return fmt.Errorf("NEXT: shot %d rendered rows u=%d v=%d; each [next] path advances on its own, so it must be u=%d v=%d (all: %v %v)", k+1, us[k], vs_[k], 11+k%nUsers, 71+k%3, us, vs_)
			}
		}
		return nil
	}
	gu, gv, wu, wv := map[int]int{}, map[int]int{}, map[int]int{}, map[int]int{}
	for k := range us {
		gu[us[k]]++
		gv[vs_[k]]++
		wu[11+k%nUsers]++
		wv[71+k%3]++
	}
	if !reflect.DeepEqual(gu, wu) || !reflect.DeepEqual(gv, wv) {
		return fmt.Errorf("NEXT: rows used by %d shots of %d instances: users %v shop.users %v; consecutive round-robin rows per path would be %v and %v", c.Shots, c.Instances, gu, gv, wu, wv)
	}
	return nil
}

// ---- cells

func programs(thorough bool) [][]string {
	alpha := []string{"a", "b", "c", "a(2)", "b(3)", "a(1,100)", "b(2,70)", "sleep(50)", "c(0)"}
	var out [][]string
	for _, x := range alpha {
		if x == "sleep(50)" || x == "c(0)" {
			continue
		}
		out = append(out, []string{x})
		for _, y := range alpha {
			out = append(out, []string{x, y})
			for _, z := range alpha {
				out = append(out, []string{x, y, z})
			}
		}
	}
	// a step whose failing assertion is followed by further postprocessors
	out = append(out, []string{"f"}, []string{"f", "c"}, []string{"a", "f", "b"}, []string{"f(2)", "b"}, []string{"c", "f"})
	return out
}

func execCells(thorough bool) []Cell {
	var out []Cell
	for _, p := range programs(thorough) {
		steps := expand(p)
		for _, mw := range []int{0, 30, 500} {
			shots := 2
			total := len(steps) * shots
			out = append(out, Cell{Mode: "exec", Program: p, MinWait: mw, Instances: 1, Shots: shots})
			if mw == 500 && !thorough {
				continue
			}
			// every single deviation from the default response
			for pos := 1; pos <= total; pos++ {
				name := steps[(pos-1)%len(steps)].name
				kinds := []string{"s500", "err"}
				if name == "a" || name == "f" {
					kinds = []string{"s500", "err", "bad"}
				}
				for _, k := range kinds {
					out = append(out, Cell{Mode: "exec", Program: p, MinWait: mw, Devs: []Dev{{pos, k}}, Instances: 1, Shots: shots})
					if thorough && pos < len(steps) {
						for _, k2 := range []string{"err", "s500"} {
							out = append(out, Cell{Mode: "exec", Program: p, MinWait: mw, Devs: []Dev{{pos, k}, {pos + len(steps), k2}}, Instances: 1, Shots: shots})
						}
					}
				}
			}
		}
	}
	return out
}

func allCells(thorough bool) []Cell {
	out := execCells(thorough)
	// a step whose template cannot be rendered, at every position of short programs, 3 shots
	// the form name(,sleep): default multiplicity, a pause of its own
	for _, p := range [][]string{{"a(,100)"}, {"a(,100)", "b"}, {"b(,70)", "c(,30)"}, {"c", "b(,70)", "a"}} {
		for _, mw := range []int{0, 30, 500} {
			out = append(out, Cell{Mode: "exec", Program: p, MinWait: mw, Instances: 1, Shots: 2})
		}
	}
	for _, p := range [][]string{{"e"}, {"a", "e"}, {"e", "a"}, {"a", "e", "b"}, {"b", "e"}, {"b(2)", "e", "c"}, {"c", "e"}, {"a(1,100)", "e"},
		// templates that do not even parse (an unclosed action, an unknown function): the step fails the same way in every shot
		{"g"}, {"a", "g", "b"}, {"g(2)", "c"},
		{"p"}, {"a", "p"}, {"a", "p", "b"}, {"c", "p(2)"}, {"q"}, {"a", "q", "b"}, {"b", "q"}, {"p", "q"}} {
		for _, mw := range []int{0, 30} {
			out = append(out, Cell{Mode: "exec", Program: p, MinWait: mw, Instances: 1, Shots: 3})
		}
	}
	for _, w1 := range []int{0, 1, 2, 3, 4, 6} {
		for _, w2 := range []int{0, 1, 2, 3, 4, 6} {
			out = append(out, Cell{Mode: "weights", W1: w1, W2: w2, Instances: 1})
		}
	}
	ws := []int{0, 1, 2, 3, 4, 6}
	if thorough {
		ws = []int{0, 1, 2, 3, 4, 5, 6, 9, 10}
	}
	for _, w1 := range ws {
		for _, w2 := range ws {
			for _, w3 := range ws {
				out = append(out, Cell{Mode: "weights", W1: w1, W2: w2, Third: true, W3: w3, Instances: 1})
			}
		}
	}
	for _, shots := range []int{1, 2, 3, 4, 6} {
		out = append(out, Cell{Mode: "names", Instances: 1, Shots: shots})
		if shots > 1 {
			out = append(out, Cell{Mode: "names", Instances: 2, Shots: shots, Bound: 1})
		}
	}
	for _, shots := range []int{1, 2, 4, 7} {
		out = append(out, Cell{Mode: "next2", Instances: 1, Shots: shots})
		if shots > 1 {
			out = append(out, Cell{Mode: "next2", Instances: 2, Shots: shots, Bound: 1})
		}
	}
	for _, shots := range []int{2, 3, 4, 7} {
		b := 2
		if shots > 4 {
			b = 1
		}
		out = append(out, Cell{Mode: "next", Instances: 2, Shots: shots, Bound: b})
		if thorough {
			out = append(out, Cell{Mode: "next", Instances: 3, Shots: shots, Bound: 1})
		}
	}
	return out
}

func classify(err error) string {
	s := err.Error()
	if i := strings.Index(s, ":"); i > 0 && i < 24 {
		return s[:i]
	}
	return "other"
}

func TestWorker(t *testing.T) {
	spec, out := hutil.Load()
	if spec == nil {
		t.Skip("no VERIF_SPEC")
	}
	defer out.Save()
	initPlugins()
	e := vs.NewExplorer(t, vs.Opts{MaxPoints: 4000, SpinLimit: 2000000}, nil)
	e.RealStop = out.Deadline()
	e.Beat = out.BeatPtr()
	explore := func(c Cell) (*run, *vs.Result) {
		r := &run{cell: c}
		e.Scenario = r.scenario
		e.Opts.Bound = c.Bound
		e.Violation, e.HarnessErr, e.BoundDone, e.CapHit = nil, false, -1, ""
		ex0, n0, s0 := e.Execs, e.Nodes, e.Steps
		e.OnExec = func(res *vs.Result) {
			if r.w != nil {
				out.Outcome(c.Mode, c.Name()+fmt.Sprint(len(r.w.Sent), len(r.w.Samples)))
			}
		}
		complete := e.Explore()
		out.Evals += int64(e.Execs - ex0)
		out.States += int64(e.Nodes - n0)
		out.Transitions += int64(e.Steps - s0)
		if !complete || e.CapHit != "" {
			out.Cap("cell %s: %s", c.Name(), e.CapHit)
		}
		return r, e.Violation
	}
	if spec.Property == "C19" && spec.Replay == nil {
		runC19(t, spec, out, e)
		return
	}
	if spec.Replay != nil {
		var probe struct {
			Gun string `json:"gun"`
		}
		_ = json.Unmarshal(spec.Replay, &probe)
		if probe.Gun != "" {
			var c C19Cell
			_ = json.Unmarshal(spec.Replay, &c)
			r := &c19run{cell: c}
			e.Scenario = r.scenario
			res := e.RunOne(nil, -1, nil)
			fmt.Printf("cell %s\nend=%s sent=%v samples=%d run err=%v panic=%q\n", c.Name(), res.End, r.sent, len(r.samples), r.res.Err, r.res.Panic)
			if res.Err != nil {
				out.Violate("C19|replay", res.Err.Error(), c)
			}
			return
		}
		var c Cell
		if err := json.Unmarshal(spec.Replay, &c); err != nil {
			t.Fatal(err)
		}
		r, v := explore(c)
		fmt.Printf("cell %s\n%s\n", c.Name(), c.yaml())
		if r.w != nil {
			fmt.Print(r.describe())
		}
		if v != nil {
			out.Violate("C15|replay", v.Err.Error(), c)
		}
		return
	}
	for ci, c := range allCells(spec.Thorough()) {
		if !spec.Mine(ci) || (spec.Only != "" && !strings.Contains(c.Name(), spec.Only)) {
			continue
		}
		if spec.Property == "C10" && c.Mode != "names" && (c.Mode != "exec" || len(c.Program) > 2 || c.MinWait != 0) {
			continue // C10 part: one sample per executed step, tagged scenario.step, status or failure
		}
		if out.OverBudget() {
			return
		}
		if !out.Begin(c.Name()) {
			continue
		}
		out.Cells++
		_, v := explore(c)
		if e.HarnessErr {
			out.HarnessErr = c.Name() + ": " + v.Err.Error()
			return
		}
		if v != nil {
			if strings.HasPrefix(v.Err.Error(), "HARNESS:") {
				out.HarnessErr = v.Err.Error()
				return
			}
			reqs := "other"
			for _, n := range []string{"c", "b", "a"} {
				for _, p := range c.Program {
					if strings.HasPrefix(p, n) {
						reqs = n
					}
				}
			}
			out.Violate(spec.Property+"|"+c.Mode+"|"+classify(v.Err)+"|"+reqs, c.Name()+"\n"+v.Err.Error(), c)
		}
		if ci%1999 == 0 {
			out.Sample(map[string]any{"cell": c.Name()})
		}
	}
}
