package scenario

import (
	"github.com/jhump/protoreflect/desc"
	"github.com/jhump/protoreflect/dynamic/grpcdynamic"
	"github.com/yandex/pandora/core"
)

// Overlay-only export for the verification harnesses (not part of the repository):
// binds the gun to a given channel and method table instead of dialling.
func ZvBind(g *Gun, aggr core.Aggregator, deps core.GunDeps, stub grpcdynamic.Stub, services map[string]desc.MethodDescriptor) {
	g.gun.Aggr = aggr
	g.gun.GunDeps = deps
	g.gun.Stub = stub
	g.gun.Services = services
}
