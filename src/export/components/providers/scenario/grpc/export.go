package grpc

import (
	gun "github.com/yandex/pandora/components/guns/grpc/scenario"
	"github.com/yandex/pandora/components/providers/scenario/config"
	"github.com/yandex/pandora/components/providers/scenario/vs"
)

// Overlay-only export for the verification harnesses (not part of the repository).
func ZvDecodeAmmo(cfg *config.AmmoConfig, storage *vs.SourceStorage) ([]*gun.Scenario, error) {
	return decodeAmmo(cfg, storage)
}
