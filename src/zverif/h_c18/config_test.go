package h_c18

// Tier 2: the same guarantees through the configuration path (config.Decode
// with the plugin hooks and the default registry), with nested plugins.

import (
	"fmt"
	"reflect"

	"github.com/yandex/pandora/core/config"
	"github.com/yandex/pandora/core/plugin"
	"github.com/yandex/pandora/core/plugin/pluginconfig"
	"github.com/yandex/pandora/zverif/hutil"
)

type ZvNested interface{ Val() int }
type nestedImpl struct{ v int }

func (n *nestedImpl) Val() int { return n.v }

type NestedConf struct{ V int }

type ZvOuter interface{ Describe() string }
type outerImpl struct{ c OuterConf }

func (o *outerImpl) Describe() string {
	s := fmt.Sprintf("A=%d B=%s", o.c.A, o.c.B)
	if o.c.Nested != nil {
		s += fmt.Sprintf(" nested=%d", o.c.Nested.Val())
	}
	for _, n := range o.c.List {
		s += fmt.Sprintf(" item=%d", n.Val())
	}
	if o.c.Make != nil {
		n, err := o.c.Make()
		s += fmt.Sprintf(" made=%v/%v", n != nil && n.Val() == 5, err)
	}
	if o.c.Self != nil {
		s += " self=(" + o.c.Self.Describe() + ")"
	}
	return s
}

type OuterConf struct {
	A      int
	B      string
	Nested ZvNested
	List   []ZvNested
	Make   func() (ZvNested, error)
	Self   ZvOuter // a component of the same type (and possibly the same name) nested in this one
	P      int     `validate:"max=100"`
}

var registered bool

func registerOnce() {
	if registered {
		return
	}
	registered = true
	pluginconfig.AddHooks()
	plugin.Register(reflect.TypeOf((*ZvNested)(nil)).Elem(), "n", func(c NestedConf) ZvNested { return &nestedImpl{c.V} }, func() NestedConf { return NestedConf{V: 1} })
	plugin.Register(reflect.TypeOf((*ZvOuter)(nil)).Elem(), "o", func(c OuterConf) ZvOuter { return &outerImpl{c} }, func() OuterConf { return OuterConf{A: 1, B: "default"} })
	plugin.Register(reflect.TypeOf((*ZvOuter)(nil)).Elem(), "of", func(c OuterConf) func() (ZvOuter, error) {
		return func() (ZvOuter, error) { return &outerImpl{c}, nil }
	}, func() OuterConf { return OuterConf{A: 1, B: "default"} })
	// registered defaults that violate a constraint themselves: usable only with a setting that repairs them
	plugin.Register(reflect.TypeOf((*ZvOuter)(nil)).Elem(), "inv", func(c OuterConf) ZvOuter { return &outerImpl{c} }, func() OuterConf { return OuterConf{A: 1, B: "default", P: 1000} })
	plugin.Register(reflect.TypeOf((*ZvOuter)(nil)).Elem(), "invf", func(c OuterConf) func() (ZvOuter, error) {
		return func() (ZvOuter, error) { return &outerImpl{c}, nil }
	}, func() OuterConf { return OuterConf{A: 1, B: "default", P: 1000} })
}

// laterCalls: with invalid settings, calls 2 and 3 of a factory must fail like call 1.
func laterCalls(form string, data map[string]any) string {
	call := func(f func() (ZvOuter, error)) (p ZvOuter, err error) {
		defer func() {
			if r := recover(); r != nil {
				err = fmt.Errorf("panic %v", r)
			}
		}()
		return f()
	}
	var f func() (ZvOuter, error)
	switch form {
	case "factory":
		var h struct{ F func() ZvOuter }
		if err := config.Decode(data, &h); err != nil {
			return ""
		}
		f = func() (ZvOuter, error) { return h.F(), nil }
	case "factory-err":
		var h struct{ F func() (ZvOuter, error) }
		if err := config.Decode(data, &h); err != nil {
			return ""
		}
		f = h.F
	default:
		return ""
	}
	for k := 1; k <= 3; k++ {
		if p, err := call(f); err == nil {
			return fmt.Sprintf("call %d of the factory returned a component (%s) and no error", k, p.Describe())
		}
	}
	return ""
}

func runConfigTier(out *hutil.Out) {
	registerOnce()
	confs := []struct {
		name    string
		data    map[string]any
		want    string
		wantErr bool // the settings violate a constraint: every creation reports it
	}{
		{name: "self-same-name", data: map[string]any{"type": "o", "a": 7, "self": map[string]any{"type": "o", "a": 9, "b": "in"}}, want: "A=7 B=default self=(A=9 B=in)"},
		{name: "self-in-factory-ctor", data: map[string]any{"type": "of", "a": 7, "self": map[string]any{"type": "of", "a": 9}}, want: "A=7 B=default self=(A=9 B=default)"},
		{name: "self-twice", data: map[string]any{"type": "o", "a": 2, "self": map[string]any{"type": "o", "a": 3, "self": map[string]any{"type": "o", "a": 4}}}, want: "A=2 B=default self=(A=3 B=default self=(A=4 B=default))"},
		{name: "invalid", data: map[string]any{"type": "o", "p": 1000}, wantErr: true},
		{name: "invalid-factory-ctor", data: map[string]any{"type": "of", "p": 1000}, wantErr: true},
		{name: "invalid-nested", data: map[string]any{"type": "o", "self": map[string]any{"type": "o", "p": 1000}}, wantErr: true},
		// a section that gives nothing but the type is still decoded and validated
		{name: "type-only-invalid-default", data: map[string]any{"type": "inv"}, wantErr: true},
		{name: "type-only-invalid-default-factory-ctor", data: map[string]any{"type": "invf"}, wantErr: true},
		{name: "type-only-invalid-default-nested", data: map[string]any{"type": "o", "self": map[string]any{"type": "inv"}}, wantErr: true},
		{name: "invalid-default-repaired", data: map[string]any{"type": "inv", "p": 5}, want: "A=1 B=default"},
		{name: "invalid-default-repaired-factory-ctor", data: map[string]any{"type": "invf", "p": 5}, want: "A=1 B=default"},
		{name: "type-only", data: map[string]any{"type": "o"}, want: "A=1 B=default"},
		{name: "plain", data: map[string]any{"type": "o", "a": 7}, want: "A=7 B=default"},
		{name: "nested", data: map[string]any{"type": "o", "b": "x", "nested": map[string]any{"type": "n", "v": 3}}, want: "A=1 B=x nested=3"},
		{name: "nested-default", data: map[string]any{"type": "o", "nested": map[string]any{"type": "n"}}, want: "A=1 B=default nested=1"},
		{name: "list", data: map[string]any{"type": "o", "list": []any{map[string]any{"type": "n", "v": 2}, map[string]any{"type": "n"}}}, want: "A=1 B=default item=2 item=1"},
		{name: "nested-factory", data: map[string]any{"type": "o", "make": map[string]any{"type": "n", "v": 5}}, want: "A=1 B=default made=true/<nil>"},
		{name: "factory-ctor-nested", data: map[string]any{"type": "of", "a": 4, "nested": map[string]any{"type": "n", "v": 9}}, want: "A=4 B=default nested=9"},
		// the key that names the plugin is matched without regard to letter case
		{name: "plain-Type", data: map[string]any{"Type": "o", "a": 7}, want: "A=7 B=default"},
		{name: "nested-TYPE", data: map[string]any{"type": "o", "b": "x", "nested": map[string]any{"TYPE": "n", "v": 3}}, want: "A=1 B=x nested=3"},
		{name: "list-Type", data: map[string]any{"TYPE": "o", "list": []any{map[string]any{"Type": "n", "v": 2}, map[string]any{"type": "n"}}}, want: "A=1 B=default item=2 item=1"},
	}
	for _, c := range confs {
		for _, form := range []string{"plugin", "factory", "factory-err"} {
			out.Cells++
			out.Evals++
			key := "C18|config-path|" + form
			var got []string
			var err error
			data := map[string]any{"f": c.data}
			switch form {
			case "plugin":
				var h struct{ F ZvOuter }
				if err = config.Decode(data, &h); err == nil {
					got = append(got, h.F.Describe())
				}
			case "factory":
				var h struct{ F func() ZvOuter }
				if err = config.Decode(data, &h); err == nil {
					for k := 0; k < 3 && err == nil; k++ {
						func() {
							defer func() {
								if r := recover(); r != nil {
									err = fmt.Errorf("product %d: panic %v", k+1, r)
								}
							}()
							got = append(got, h.F().Describe())
						}()
					}
				}
			case "factory-err":
				var h struct{ F func() (ZvOuter, error) }
				if err = config.Decode(data, &h); err == nil {
					for k := 0; k < 3; k++ {
						p, e := h.F()
						if e != nil {
							err = fmt.Errorf("product %d: %v", k+1, e)
							break
						}
						got = append(got, p.Describe())
					}
				}
			}
			out.States += int64(len(got))
			out.Outcome("config-path", c.name+form)
			if c.wantErr {
				// every creation must fail: collect the calls that did not
				bad := ""
				switch form {
				case "plugin":
					if err == nil {
						bad = "decoding the component"
					}
				case "factory", "factory-err":
					if err == nil {
						bad = fmt.Sprintf("%d product(s) %v created", len(got), got)
					} else if len(got) > 0 {
						bad = fmt.Sprintf("%d product(s) created before the error: %v", len(got), got)
					}
				}
				if bad == "" {
					// the first call failed; the later ones must fail too
					bad = laterCalls(form, data)
				}
				if bad != "" {
					out.Violate(key+"|INVALID-ACCEPTED", fmt.Sprintf("%s as %s: settings violate max=100 but %s", c.name, form, bad), map[string]any{"tier": "config", "case": c.name, "form": form})
				}
				continue
			}
			if err != nil {
				out.Violate(key+"|SECOND-PRODUCT", fmt.Sprintf("%s as %s: %v (products so far: %v)", c.name, form, err, got), map[string]any{"tier": "config", "case": c.name, "form": form})
				continue
			}
			for k, g := range got {
				if g != c.want {
					out.Violate(key+"|CONFIG", fmt.Sprintf("%s as %s: product %d is %q, registered defaults overlaid by the settings give %q", c.name, form, k+1, g, c.want), map[string]any{"tier": "config", "case": c.name, "form": form})
					break
				}
			}
		}
	}
}
