//go:build race

package vsync

import "sync"

// In race-transparent mode the real pool is kept: its own synchronisation is part of the program.
type Pool = sync.Pool
