package h_scn

import (
	"go.uber.org/zap"
	"go.uber.org/zap/zapcore"
)

var nopLog = zap.NewNop()

type discard struct{}

func (discard) Write(p []byte) (int, error) { return len(p), nil }
func (discard) Sync() error                 { return nil }

// debugLog formats every debug message (so that logging code paths run) and throws it away.
var debugLog = zap.New(zapcore.NewCore(zapcore.NewJSONEncoder(zap.NewDevelopmentEncoderConfig()), discard{}, zapcore.DebugLevel))
