// Package vsync replaces "sync" in rewritten pandora files. Mutex, RWMutex,
// Once and WaitGroup are cooperative under the vs scheduler (a scheduling point
// in front of every acquire; blocked acquires are "disabled" instead of
// blocking natively) and delegate to the real primitive as well, so that the
// race detector sees the program's real happens-before edges. Outside a
// managed execution they are exactly the real primitives.
package vsync

import (
	"sync"

	"github.com/yandex/pandora/zverif/vs"
)

type (
	Map    = sync.Map
	Locker = sync.Locker
	Cond   = sync.Cond
)

type Mutex struct {
	mu   sync.Mutex
	held bool
}

//go:norace
func (m *Mutex) VsEnabled(kind int) bool { return !m.held }

//go:norace
func (m *Mutex) Lock() {
	if vs.PointOp(vs.OpLock, m) {
		m.held = true
		m.mu.Lock()
		return
	}
	m.mu.Lock()
	m.held = true
}

//go:norace
func (m *Mutex) Unlock() {
	m.held = false
	m.mu.Unlock()
}

//go:norace
func (m *Mutex) TryLock() bool {
	vs.PointOp(vs.OpAtomic, nil)
	if m.mu.TryLock() {
		m.held = true
		return true
	}
	return false
}

type RWMutex struct {
	mu sync.RWMutex
	w  bool
	r  int
}

//go:norace
func (m *RWMutex) VsEnabled(kind int) bool {
	if kind == vs.OpRLock {
		return !m.w
	}
	return !m.w && m.r == 0
}

//go:norace
func (m *RWMutex) Lock() {
	if vs.PointOp(vs.OpLock, m) {
		m.w = true
		m.mu.Lock()
		return
	}
	m.mu.Lock()
	m.w = true
}

//go:norace
func (m *RWMutex) Unlock() {
	m.w = false
	m.mu.Unlock()
}

//go:norace
func (m *RWMutex) RLock() {
	if vs.PointOp(vs.OpRLock, m) {
		m.r++
		m.mu.RLock()
		return
	}
	m.mu.RLock()
	m.incR(1)
}

//go:norace
func (m *RWMutex) RUnlock() {
	m.incR(-1)
	m.mu.RUnlock()
}

var rmu sync.Mutex

//go:norace
func (m *RWMutex) incR(d int) {
	if vs.Active() {
		m.r += d
		return
	}
	rmu.Lock()
	m.r += d
	rmu.Unlock()
}

func (m *RWMutex) RLocker() sync.Locker { return (*rlocker)(m) }

type rlocker RWMutex

func (r *rlocker) Lock()   { (*RWMutex)(r).RLock() }
func (r *rlocker) Unlock() { (*RWMutex)(r).RUnlock() }

type Once struct {
	once    sync.Once
	running bool
}

//go:norace
func (o *Once) VsEnabled(kind int) bool { return !o.running }

//go:norace
func (o *Once) Do(f func()) {
	if !vs.PointOp(vs.OpOnce, o) {
		o.once.Do(f)
		return
	}
	o.once.Do(func() {
		o.running = true
		defer o.clear()
		f()
	})
}

//go:norace
func (o *Once) clear() { o.running = false }

type WaitGroup struct {
	wg sync.WaitGroup
	n  int
	mu sync.Mutex
}

//go:norace
func (w *WaitGroup) VsEnabled(kind int) bool { return w.n <= 0 }

//go:norace
func (w *WaitGroup) Add(d int) {
	if vs.Active() {
		w.n += d
	} else {
		w.mu.Lock()
		w.n += d
		w.mu.Unlock()
	}
	w.wg.Add(d)
}

//go:norace
func (w *WaitGroup) Done() { w.Add(-1) }

//go:norace
func (w *WaitGroup) Wait() {
	vs.PointOp(vs.OpWait, w)
	w.wg.Wait()
}
