#!/usr/bin/env python3
"""refresh the generated tables of DESIGN.md (between <!-- X:BEGIN --> / <!-- X:END --> markers)"""
import json, os, re
k = json.load(open('/verif/known_findings.json'))
rows = ["| id | property | status | commit | what failed |", "|---|---|---|---|---|"]
for f in k['findings']:
    line = f['line']
    line = line.split(' ', 3)[-1] if f['status'] == 'fixed' else line.replace('KNOWN-FINDING: property=%s ' % f['property'], '')
    rows.append("| %s | %s | %s | %s | %s |" % (f['id'], f['property'], f['status'], f.get('commit', '-') or '-', line.replace('|', '\\|')[:400]))
ft = "\n".join(rows)
d = json.load(open('/verif/seeded/detection.json'))
rows = ["| seed | what it changes (summary) | needs to manifest | detected by | check strengthened first? |", "|---|---|---|---|---|"]
for sid in sorted(d):
    mp = '/verif/seeded/%s/meta.json' % sid
    summ = need = ''
    if os.path.exists(mp):
        m = json.load(open(mp))
        summ = (m.get('summary') or '')[:220].replace('\n', ' ').replace('|', '/')
        need = (m.get('needs_to_manifest') or '')[:180].replace('\n', ' ').replace('|', '/')
    else:
        summ = '(not kept under /verif/seeded: my re-confirmation of the suite run did not succeed)'
    det = ", ".join(d[sid]['detected_by']) or '**not detected**'
    rows.append("| %s | %s | %s | %s | %s |" % (sid, summ, need, det, d[sid]['after'] or 'no'))
st = "\n".join(rows)
p = '/verif/DESIGN.md'
s = open(p).read()
for name, tab in (('FINDINGS', ft), ('SEEDS', st)):
    s = re.sub(r'<!-- %s:BEGIN -->.*?<!-- %s:END -->' % (name, name), '<!-- %s:BEGIN -->\n%s\n<!-- %s:END -->' % (name, tab, name), s, flags=re.S)
open(p, 'w').write(s)
print("tables refreshed")
