// Package vatomic replaces "go.uber.org/atomic" in rewritten pandora files:
// a scheduling point in front of every operation the repository uses, then the
// real operation. Types not used by the repository are plain aliases.
package vatomic

import (
	"time"

	"github.com/yandex/pandora/zverif/vs"
	uatomic "go.uber.org/atomic"
)

type (
	Int32    = uatomic.Int32
	Uint32   = uatomic.Uint32
	Float64  = uatomic.Float64
	Duration = uatomic.Duration
	String   = uatomic.String
	Error    = uatomic.Error
	Value    = uatomic.Value
)

//go:norace
func pt(obj any) { vs.PointOp(vs.OpAtomic, obj) }

type Int64 struct{ v uatomic.Int64 }

func NewInt64(x int64) *Int64 { i := &Int64{}; i.v.Store(x); return i }

func (i *Int64) Load() int64                    { pt(i); return i.v.Load() }
func (i *Int64) Store(x int64)                  { pt(i); i.v.Store(x) }
func (i *Int64) Add(d int64) int64              { pt(i); return i.v.Add(d) }
func (i *Int64) Sub(d int64) int64              { pt(i); return i.v.Sub(d) }
func (i *Int64) Inc() int64                     { pt(i); return i.v.Inc() }
func (i *Int64) Dec() int64                     { pt(i); return i.v.Dec() }
func (i *Int64) Swap(x int64) int64             { pt(i); return i.v.Swap(x) }
func (i *Int64) CAS(o, n int64) bool            { pt(i); return i.v.CompareAndSwap(o, n) }
func (i *Int64) String() string                 { return i.v.String() }
func (i *Int64) CompareAndSwap(o, n int64) bool { pt(i); return i.v.CompareAndSwap(o, n) }

type Uint64 struct{ v uatomic.Uint64 }

func NewUint64(x uint64) *Uint64 { i := &Uint64{}; i.v.Store(x); return i }

func (i *Uint64) Load() uint64                    { pt(i); return i.v.Load() }
func (i *Uint64) Store(x uint64)                  { pt(i); i.v.Store(x) }
func (i *Uint64) Add(d uint64) uint64             { pt(i); return i.v.Add(d) }
func (i *Uint64) Sub(d uint64) uint64             { pt(i); return i.v.Sub(d) }
func (i *Uint64) Inc() uint64                     { pt(i); return i.v.Inc() }
func (i *Uint64) Dec() uint64                     { pt(i); return i.v.Dec() }
func (i *Uint64) Swap(x uint64) uint64            { pt(i); return i.v.Swap(x) }
func (i *Uint64) CAS(o, n uint64) bool            { pt(i); return i.v.CompareAndSwap(o, n) }
func (i *Uint64) String() string                  { return i.v.String() }
func (i *Uint64) CompareAndSwap(o, n uint64) bool { pt(i); return i.v.CompareAndSwap(o, n) }

type Bool struct{ v uatomic.Bool }

func NewBool(x bool) *Bool { b := &Bool{}; b.v.Store(x); return b }

func (b *Bool) Load() bool                    { pt(b); return b.v.Load() }
func (b *Bool) Store(x bool)                  { pt(b); b.v.Store(x) }
func (b *Bool) Swap(x bool) bool              { pt(b); return b.v.Swap(x) }
func (b *Bool) CAS(o, n bool) bool            { pt(b); return b.v.CompareAndSwap(o, n) }
func (b *Bool) Toggle() bool                  { pt(b); return b.v.Toggle() }
func (b *Bool) String() string                { return b.v.String() }
func (b *Bool) CompareAndSwap(o, n bool) bool { pt(b); return b.v.CompareAndSwap(o, n) }

type Time struct{ v uatomic.Time }

func NewTime(t time.Time) *Time { x := &Time{}; x.v.Store(t); return x }

func (t *Time) Load() time.Time   { pt(t); return t.v.Load() }
func (t *Time) Store(x time.Time) { pt(t); t.v.Store(x) }
