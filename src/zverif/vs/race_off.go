//go:build !race

package vs

const RaceBuild = false

func raceDisable() {}
func raceEnable()  {}
