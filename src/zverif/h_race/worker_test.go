// Package h_race decides the data-race part of C11: real pools (provider +
// guns + aggregator inside a real engine.Engine) with 2-3 instances are run
// under the vs scheduler in race-transparent mode (-race build; the scheduler's
// hand-offs are hidden from the race detector), so that for every explored
// schedule the detector gives an exact happens-before verdict for that trace.
// Runtime faults (concurrent map access, panics) are verdicts too.
package h_race

import (
	"context"
	"encoding/json"
	"fmt"
	"regexp"
	"strings"
	"sync"
	"testing"
	"time"

	"github.com/jhump/protoreflect/desc"
	"github.com/jhump/protoreflect/dynamic/grpcdynamic"
	"github.com/spf13/afero"
	grpcimport "github.com/yandex/pandora/components/grpc/import"
	grpcgun "github.com/yandex/pandora/components/guns/grpc"
	grpcscenario "github.com/yandex/pandora/components/guns/grpc/scenario"
	phttp "github.com/yandex/pandora/components/guns/http"
	httpscenario "github.com/yandex/pandora/components/guns/http_scenario"
	phttpimport "github.com/yandex/pandora/components/phttp/import"
	"github.com/yandex/pandora/core"
	"github.com/yandex/pandora/core/config"
	"github.com/yandex/pandora/core/engine"
	coreimport "github.com/yandex/pandora/core/import"
	"github.com/yandex/pandora/core/schedule"
	"github.com/yandex/pandora/examples/grpc/server"
	"github.com/yandex/pandora/lib/monitoring"
	"github.com/yandex/pandora/zverif/hutil"
	"github.com/yandex/pandora/zverif/vs"
	"go.uber.org/zap"
	"os"
)

var (
	memfs    = hutil.NewStrictFs()
	initOnce sync.Once
	services map[string]desc.MethodDescriptor
)

const httpScenario = `variable_sources:
  - name: users
    type: file/csv
    file: /users.csv
    fields: [user_id, name]
    ignore_first_line: true
    delimiter: ','
  - name: vars
    type: variables
    variables: {b: s, num: "randInt(1,5)"}
requests:
  - name: h
    method: POST
    uri: '/h?u={{.request.h.preprocessor.uid}}&r={{randInt 1 9}}&s={{randString 4 "ab"}}&id={{uuid}}'
    headers:
      Content-Type: application/json
      X-U: '{{.request.h.preprocessor.uid}}'
    body: '{"u": "{{.request.h.preprocessor.name}}", "r": "{{.request.h.preprocessor.rnd}}"}'
    preprocessor:
      mapping:
        uid: source.users[next].user_id
        name: source.vars.b
        rnd: source.vars.num
    postprocessors:
      - type: var/header
        mapping:
          v1: X-H|substr(5)
          v2: X-H|substr(-10)|upper
          v3: X-H|lower|replace(a,b)
      - type: var/jsonpath
        mapping: {token: $.token}
      - type: assert/response
        headers: {Content-Type: json}
        body: [token]
        size: {val: 5, op: ">"}
  - name: x
    method: GET
    uri: /x?t={{.request.h.postprocessor.token}}
    headers: {X-V: '{{.request.h.postprocessor.v1}}', X-N: '{{.request.x.preprocessor.name}}'}
    templater: {type: html}
    preprocessor:
      mapping:
        name: source.users[rand].name
    postprocessors:
      - type: var/xpath
        mapping: {title: //title}
scenarios:
  - name: s1
    weight: 2
    requests: [h, x]
  - name: s2
    requests: [x, h(2)]
`

const grpcScenario = `variable_sources:
  - name: users
    type: file/csv
    file: /users.csv
    fields: [user_id, name]
    ignore_first_line: true
    delimiter: ','
calls:
  - name: c1
    tag: hello
    call: target.TargetService.Hello
    metadata:
      u: '{{.request.c1.preprocessor.u}}'
      fixed: v
    payload: '{"name": "{{.request.c1.preprocessor.u}}"}'
    preprocessors:
      - type: prepare
        mapping:
          u: source.users[next].name
      - type: prepare
        mapping:
          r: source.users[rand].user_id
  - name: c2
    tag: auth
    call: target.TargetService.Auth
    metadata: {m: '{{.request.c1.preprocessor.r}}'}
    payload: '{"login": "l", "pass": "{{.request.c1.preprocessor.u}}"}'
    postprocessors:
      - type: assert/response
        status_code: 400
scenarios:
  - name: s1
    requests: [c1, c2]
`

func initPlugins() {
	initOnce.Do(func() {
		coreimport.Import(memfs)
		phttpimport.Import(memfs)
		grpcimport.Import(memfs)
		_ = afero.WriteFile(memfs, "/users.csv", []byte("user_id,name\n11,a\n12,b\n13,c\n"), 0o644)
		_ = afero.WriteFile(memfs, "/ammo.uri", []byte("[A: b]\n/h t\n/j\n[B: c]\n/x t2\n"), 0o644)
		_ = afero.WriteFile(memfs, "/ammo.json", []byte(`{"tag":"t","uri":"/h","method":"POST","headers":{"A":"b"},"host":"h","body":"x"}`+"\n"+`{"uri":"/x","method":"GET","host":"h"}`+"\n"), 0o644)
		r := "POST /h HTTP/1.1\r\nHost: h\r\nContent-Length: 1\r\n\r\nx"
		_ = afero.WriteFile(memfs, "/ammo.raw", []byte(fmt.Sprintf("%d t\n%s\n", len(r), r)), 0o644)
		_ = afero.WriteFile(memfs, "/ammo.uripost", []byte("[A: b]\n1 /h t\nx\n0 /x\n"), 0o644)
		_ = afero.WriteFile(memfs, "/ammo.grpc", []byte(`{"tag":"a","call":"target.TargetService.Hello","metadata":{"k":"v"},"payload":{"name":"n"}}`+"\n"+`{"tag":"b","call":"target.TargetService.Auth","payload":{"login":"l","pass":"p"}}`+"\n"+`{"tag":"c","call":"target.TargetService.Nosuch","payload":{}}`+"\n"), 0o644)
		_ = afero.WriteFile(memfs, "/sc.yaml", []byte(httpScenario), 0o644)
		_ = afero.WriteFile(memfs, "/gsc.yaml", []byte(grpcScenario), 0o644)
		fd, err := desc.WrapFile(server.File_target_proto)
		if err != nil {
			panic(err)
		}
		services = map[string]desc.MethodDescriptor{}
		for _, s := range fd.GetServices() {
			for _, m := range s.GetMethods() {
				services[m.GetFullyQualifiedName()] = *m
			}
		}
	})
}

type Cell struct {
	Pool      string `json:"pool"` // uri uri+preload json raw uripost http-scenario grpc-json grpc-scenario
	Result    string `json:"result"`
	Instances int    `json:"instances"`
	Shots     int    `json:"shots"`
	PerInst   bool   `json:"rps_per_instance"`
	Shared    bool   `json:"shared_client"`
	Bound     int    `json:"bound"`
	RPS       string `json:"rps,omitempty"` // "" once(shots) | const | composite | unlimited | overdue
}

func (c Cell) Name() string {
	return fmt.Sprintf("%s|result=%s|instances=%d|shots=%d|perinst=%v|shared=%v|rps=%s", c.Pool, c.Result, c.Instances, c.Shots, c.PerInst, c.Shared, c.RPS)
}

func deepCopy(v any) any {
	switch x := v.(type) {
	case map[string]any:
		m := make(map[string]any, len(x))
		for k, e := range x {
			m[k] = deepCopy(e)
		}
		return m
	case []any:
		l := make([]any, len(x))
		for i, e := range x {
			l[i] = deepCopy(e)
		}
		return l
	}
	return v
}

func ammoConf(c Cell) map[string]any {
	switch c.Pool {
	case "uri":
		return map[string]any{"type": "uri", "file": "/ammo.uri", "limit": c.Shots}
	case "uri+preload":
		return map[string]any{"type": "uri", "file": "/ammo.uri", "limit": c.Shots, "preload": true}
	case "json":
		return map[string]any{"type": "http/json", "file": "/ammo.json", "limit": c.Shots}
	case "json+preload":
		return map[string]any{"type": "http/json", "file": "/ammo.json", "limit": c.Shots, "preload": true}
	case "raw":
		return map[string]any{"type": "raw", "file": "/ammo.raw", "limit": c.Shots, "headers": []any{"[X: y]"}}
	case "uripost":
		return map[string]any{"type": "uripost", "file": "/ammo.uripost", "limit": c.Shots, "headers": []any{"[X: y]"}}
	case "http-scenario":
		return map[string]any{"type": "http/scenario", "file": "/sc.yaml", "limit": c.Shots}
	case "grpc-json":
		return map[string]any{"type": "grpc/json", "file": "/ammo.grpc", "limit": c.Shots}
	case "grpc-scenario":
		return map[string]any{"type": "grpc/scenario", "file": "/gsc.yaml", "limit": c.Shots}
	}
	panic("pool " + c.Pool)
}

func resultConf(c Cell) map[string]any {
	switch c.Result {
	case "phout":
		return map[string]any{"type": "phout", "destination": "/phout.log", "id": true, "buffer-size": 4096}
	case "jsonlines":
		return map[string]any{"type": "jsonlines", "sink": map[string]any{"type": "file", "path": "/out.jsonl"}}
	case "log":
		return map[string]any{"type": "log"}
	}
	return map[string]any{"type": "discard"}
}

type run struct {
	cell Cell
	res  EngRes
	cerr error
}

var nop = zap.NewNop()

// decodeScenario: two pools' worth of component configuration decoded at the same time (gun and
// schedule factories decode their settings whenever an instance is created, so decodes of different
// pools overlap in a real run). Each decode must fill its own result; the detector watches for state
// shared between them.
func (r *run) decodeScenario(x *vs.X) func(end, msg string) error {
	type holder struct {
		Gun     func() (core.Gun, error)
		RPS     func() (core.Schedule, error)
		Startup core.Schedule
	}
	confs := []map[string]any{
		{"gun": map[string]any{"type": "http", "target": "127.0.0.1:81", "ssl": false}, "rps": map[string]any{"type": "const", "ops": 2, "duration": "1s"}, "startup": map[string]any{"type": "once", "times": 1}},
		{"gun": map[string]any{"type": "http", "target": "127.0.0.1:82", "ssl": true}, "rps": map[string]any{"type": "once", "times": 3}, "startup": map[string]any{"type": "once", "times": 2}},
	}
	if r.cell.Pool == "decode-placeholders" {
		// the same settings given through ${property:file#key} and ${env:NAME} placeholders (two property files)
		_ = os.WriteFile("zv_c11_a.properties", []byte("# pool a\nother=1\nops=2\ntarget=127.0.0.1:81\n"), 0o644)
		_ = os.WriteFile("zv_c11_b.properties", []byte("# pool b\ntimes=3\nother=2\ntarget=127.0.0.1:82\n"), 0o644)
		os.Setenv("ZV_C11_DUR", "1s")
		os.Setenv("ZV_C11_SSL", "true")
		confs = []map[string]any{
			{"gun": map[string]any{"type": "http", "target": "${property:zv_c11_a.properties#target}", "ssl": false}, "rps": map[string]any{"type": "const", "ops": "${property:zv_c11_a.properties#ops}", "duration": "${env:ZV_C11_DUR}"}, "startup": map[string]any{"type": "once", "times": 1}},
			{"gun": map[string]any{"type": "http", "target": "${property:zv_c11_b.properties#target}", "ssl": "${env:ZV_C11_SSL}"}, "rps": map[string]any{"type": "once", "times": "${property:zv_c11_b.properties#times}"}, "startup": map[string]any{"type": "once", "times": 2}},
		}
	}
	type outcome struct {
		i    int
		err  error
		left int
	}
	results := make(chan outcome, len(confs)) // buffered: the hand-off to the oracle is a real synchronisation
	// as in a real run, the configuration as a whole has been decoded (by one goroutine) before any
	// component decodes its own part: the lazily compiled hook chain exists by then
	var warm holder
	_ = config.DecodeAndValidate(deepCopy(confs[0]), &warm)
	for i := range confs {
		i := i
		conf := deepCopy(confs[i])
		vs.Go(fmt.Sprintf("decode%d", i), func() {
			var h holder
			if err := config.DecodeAndValidate(conf, &h); err != nil {
				results <- outcome{i: i, err: err}
				return
			}
			if _, err := h.Gun(); err != nil {
				results <- outcome{i: i, err: err}
				return
			}
			s, err := h.RPS()
			if err != nil {
				results <- outcome{i: i, err: err}
				return
			}
			results <- outcome{i: i, left: s.Left()}
		})
	}
	close(r.res.Done)
	return func(end, msg string) error {
		if end != vs.EndComplete {
			return fmt.Errorf("HANG: execution ended with %s (%s)", end, msg)
		}
		lefts := map[int]int{}
		for range confs {
			select {
			case o := <-results:
				if o.err != nil {
					return fmt.Errorf("FAULT: decode %d failed: %v", o.i, o.err)
				}
				lefts[o.i] = o.left
			default:
				return fmt.Errorf("FAULT: a decode did not finish")
			}
		}
		if lefts[0] != 2 || lefts[1] != 3 {
			return fmt.Errorf("FAULT: the two decodes got each other's settings: schedules with %d and %d tokens, configured 2 and 3", lefts[0], lefts[1])
		}
		return nil
	}
}

func (r *run) scenario(x *vs.X) func(end, msg string) error {
	c := r.cell
	r.res = EngRes{Done: make(chan struct{})}
	if c.Pool == "decode" || c.Pool == "decode-placeholders" {
		return r.decodeScenario(x)
	}
	var h struct {
		Ammo   core.Provider
		Result core.Aggregator
	}
	if err := config.DecodeAndValidate(map[string]any{"ammo": deepCopy(ammoConf(c)), "result": deepCopy(resultConf(c))}, &h); err != nil {
		r.cerr = err
		return func(end, msg string) error { return fmt.Errorf("HARNESS: components: %v", err) }
	}
	hconf := phttp.DefaultHTTPGunConfig()
	hconf.Target, hconf.TargetResolved = "127.0.0.1:80", "127.0.0.1:80"
	hconf.AutoTag.Enabled = true
	hconf.SharedClient.Enabled = c.Shared
	hconf.SharedClient.ClientNumber = 1
	if c.Instances >= 3 {
		hconf.SharedClient.ClientNumber = 2 // instances bound from their own goroutines draw from a pool of two
	}
	cc := func(phttp.ClientConfig, string) phttp.Client { return httpClient{} }
	var shared any
	var newGun func() (core.Gun, error)
	switch {
	case strings.HasPrefix(c.Pool, "grpc-json"):
		newGun = func() (core.Gun, error) {
			return &grpcGunWrap{&grpcgun.Gun{Conf: grpcgun.GunConfig{Target: "t", Timeout: time.Second}, Stub: grpcdynamic.NewStub(grpcChannel{}), Services: services}}, nil
		}
	case c.Pool == "grpc-scenario":
		newGun = func() (core.Gun, error) {
			g := grpcscenario.NewGun(grpcscenario.GunConfig{Target: "t", Timeout: time.Second})
			return &grpcScnWrap{g: g}, nil
		}
	case c.Pool == "http-scenario":
		newGun = func() (core.Gun, error) { return httpscenario.WrapGun(httpscenario.ZvNewGun(cc, hconf)), nil }
		if c.Shared {
			sd, _ := httpscenario.ZvNewGun(cc, hconf).WarmUp(nil)
			shared = sd
		}
	default:
		newGun = func() (core.Gun, error) { return phttp.WrapGun(phttp.NewBaseGun(cc, hconf, nil)), nil }
		if c.Shared {
			sd, _ := phttp.NewBaseGun(cc, hconf, nil).WarmUp(nil)
			shared = sd
		}
	}
	_ = shared
	metrics := engine.Metrics{Request: &monitoring.Counter{}, Response: &monitoring.Counter{}, InstanceStart: &monitoring.Counter{}, InstanceFinish: &monitoring.Counter{}}
	eng := engine.New(nop, metrics, engine.Config{Pools: []engine.InstancePoolConfig{{
		ID:         "p",
		Provider:   h.Ammo,
		Aggregator: h.Result,
		NewGun:     newGun,
		NewRPSSchedule: func() (core.Schedule, error) {
			switch c.RPS {
			case "const":
				return schedule.NewConst(4, time.Second), nil
			case "composite":
				return schedule.NewComposite(schedule.NewOnce(1), schedule.NewConst(0, 100*time.Millisecond), schedule.NewLine(2, 6, 500*time.Millisecond), schedule.NewOnce(1)), nil
			case "unlimited":
				return schedule.NewComposite(schedule.NewOnce(1), schedule.NewUnlimited(200*time.Millisecond)), nil
			case "overdue":
				// a profile that started 2.5 s ago: its first tokens are discarded (discard_overflow), the last is fired
				s := schedule.NewConst(4, time.Second)
				s.Start(time.Now().Add(-2500 * time.Millisecond))
				return s, nil
			}
			return schedule.NewOnce(int64(c.Shots)), nil
		},
		RPSPerInstance:  c.PerInst,
		StartupSchedule: schedule.NewOnce(int64(c.Instances)),
		DiscardOverflow: true,
	}}})
	ctx, cancel := context.WithCancel(context.Background())
	x.OnAbort(cancel)
	x.Deadline = time.Now().Add(time.Hour)
	vs.Go("engine", func() { StartEngine(ctx, cancel, eng, &r.res) })
	return func(end, msg string) error {
		defer cancel()
		select {
		case <-r.res.Done: // happens-before edge from the end of the engine goroutine to this oracle
		default:
			if end == vs.EndComplete {
				return fmt.Errorf("HARNESS: engine goroutine not finished at the end of a complete execution")
			}
			return fmt.Errorf("HANG: execution ended with %s (%s)", end, msg)
		}
		if r.res.Panic != "" {
			return fmt.Errorf("FAULT: engine goroutine panicked: %s", r.res.Panic)
		}
		if end == vs.EndCap {
			return nil
		}
		if end != vs.EndComplete {
			return fmt.Errorf("HANG: execution ended with %s (%s)", end, msg)
		}
		if r.res.Err != nil {
			return fmt.Errorf("FAULT: the run failed: %v", r.res.Err)
		}
		return nil
	}
}

// grpcGunWrap binds the scripted-channel gun (Bind of the real gun dials).
type grpcGunWrap struct{ g *grpcgun.Gun }

func (w *grpcGunWrap) Bind(a core.Aggregator, deps core.GunDeps) error {
	w.g.Aggr, w.g.GunDeps = a, deps
	return nil
}
func (w *grpcGunWrap) Shoot(am core.Ammo) { w.g.Shoot(am) }

type grpcScnWrap struct{ g *grpcscenario.Gun }

func (w *grpcScnWrap) Bind(a core.Aggregator, deps core.GunDeps) error {
	grpcscenario.ZvBind(w.g, a, deps, grpcdynamic.NewStub(grpcChannel{}), services)
	return nil
}
func (w *grpcScnWrap) Shoot(am core.Ammo) { w.g.Shoot(am) }

func cells(thorough bool) []Cell {
	var out []Cell
	pools := []string{"uri", "uri+preload", "json", "json+preload", "raw", "uripost", "http-scenario", "grpc-json", "grpc-scenario"}
	results := []string{"phout", "jsonlines", "discard", "log"}
	for pi, p := range pools {
		for ri, res := range results {
			for _, inst := range []int{2, 3} {
				if !thorough && inst == 3 && (pi+ri)%3 != 0 {
					continue
				}
				for _, per := range []bool{false, true} {
					if per && (pi+ri)%3 != 0 && !thorough {
						continue
					}
					b := 1
					if inst == 3 {
						b = 0
					}
					if thorough && inst == 2 {
						b = 2
					}
					rps := []string{"", "const", "composite", "unlimited", "overdue"}[(pi+ri+inst)%5]
					if p == "http-scenario" || p == "grpc-scenario" {
						rps = "" // long executions already
					}
					out = append(out, Cell{Pool: p, Result: res, Instances: inst, Shots: 4, PerInst: per, Bound: b, RPS: rps})
				}
			}
		}
		if !strings.HasPrefix(p, "grpc") {
			out = append(out, Cell{Pool: p, Result: "discard", Instances: 2, Shots: 4, Shared: true, Bound: 1})
			if p == "uri" || p == "http-scenario" {
				// three instances: the second and third are created (and bound) concurrently
				out = append(out, Cell{Pool: p, Result: "discard", Instances: 3, Shots: 3, Shared: true, Bound: 1})
			}
		}
		if !strings.HasSuffix(p, "-scenario") {
			// every pool kind with overdue tokens: the discard branch releases its ammo and reports a sample of its own
			out = append(out, Cell{Pool: p, Result: "phout", Instances: 2, Shots: 4, Bound: 1, RPS: "overdue"})
		}
	}
	out = append(out, Cell{Pool: "decode", Result: "none", Instances: 2, Bound: 1})
	out = append(out, Cell{Pool: "decode-placeholders", Result: "none", Instances: 2, Bound: 1})
	return out
}

var frameRe = regexp.MustCompile(`(?m)^  (github\.com/yandex/pandora/[^\s(]+)\(`)

// raceKey names a race report by its first pandora frames (first access, second access).
func raceKey(rep string) string {
	var fr []string
	for _, blk := range strings.Split(rep, "\n\n") {
		if strings.Contains(blk, "Goroutine ") {
			break
		}
		for _, m := range frameRe.FindAllStringSubmatch(blk, -1) {
			f := strings.TrimPrefix(m[1], "github.com/yandex/pandora/")
			if strings.HasPrefix(f, "zverif/") {
				continue
			}
			fr = append(fr, f)
			break
		}
	}
	if len(fr) > 2 {
		fr = fr[:2]
	}
	return strings.Join(fr, "~")
}

// ownRace returns the first report of rep in which both access stacks run through pandora code. A
// report with an access stack made only of scheduler frames (vs.* calling into the standard library
// with race instrumentation disabled, so that e.g. a sync.Once inside time.NewTimer is not seen as
// synchronization) says nothing about pandora and is dropped.
func ownRace(rep string) string {
	for _, one := range strings.Split(rep, "==================") {
		if !strings.Contains(one, "DATA RACE") {
			continue
		}
		blks := strings.Split(one, "\n\n")
		n, ok := 0, true
		for _, blk := range blks {
			if strings.Contains(blk, "Goroutine ") && !strings.Contains(blk, "DATA RACE") {
				break
			}
			n++
			own := false
			for _, m := range frameRe.FindAllStringSubmatch(blk, -1) {
				if !strings.HasPrefix(strings.TrimPrefix(m[1], "github.com/yandex/pandora/"), "zverif/vs.") {
					own = true
				}
			}
			if !own {
				ok = false
			}
		}
		if ok && n >= 2 {
			return "==================" + one
		}
	}
	return ""
}

func classify(err error) string {
	s := err.Error()
	if i := strings.Index(s, ":"); i > 0 && i < 24 {
		return s[:i]
	}
	return "other"
}

func TestWorker(t *testing.T) {
	spec, out := hutil.Load()
	if spec == nil {
		t.Skip("no VERIF_SPEC")
	}
	defer out.Save()
	initPlugins()
	if !vs.RaceBuild {
		out.Notes = append(out.Notes, "not a -race build: only runtime faults are detected")
	}
	e := vs.NewExplorer(t, vs.Opts{MaxPoints: 6000, SpinLimit: 2000000, DelayBound: true}, nil)
	e.RealStop = out.Deadline()
	e.Beat = out.BeatPtr()
	e.StopOnViol = true
	time.NewTimer(time.Hour).Stop() // run the standard library's lazy timer setup before any goroutine exists
	var raceOff int64
	spec.RaceReports(&raceOff) // anything reported during init is not ours
	explore := func(c Cell, choices []int) (string, string, *vs.Result) {
		r := &run{cell: c}
		e.Scenario = r.scenario
		e.Opts.Bound = c.Bound
		e.Violation, e.HarnessErr, e.BoundDone, e.CapHit = nil, false, -1, ""
		ex0, n0, s0 := e.Execs, e.Nodes, e.Steps
		var raceRep string
		var raceChoices []int
		e.OnExec = func(res *vs.Result) {
			if raceRep == "" {
				if rep := ownRace(spec.RaceReports(&raceOff)); rep != "" {
					raceRep, raceChoices = rep, append([]int(nil), res.Choices...)
				}
			}
		}
		// a race makes testing fail the synctest sub-test with FailNow: confine that to a sub-test of ours
		t.Run("cell", func(st *testing.T) {
			e.T = st
			if choices != nil {
				res := e.RunOne(choices, -1, nil)
				e.OnExec(res)
				if res.Err != nil {
					e.Violation = res
				}
			} else {
				complete := e.Explore()
				if !complete || e.CapHit != "" {
					out.Cap("cell %s: %s", c.Name(), e.CapHit)
				}
			}
		})
		e.T = t
		if raceRep == "" {
			if rep := ownRace(spec.RaceReports(&raceOff)); rep != "" {
				raceRep = rep
			}
		}
		out.Evals += int64(e.Execs - ex0)
		out.States += int64(e.Nodes - n0)
		out.Transitions += int64(e.Steps - s0)
		_ = raceChoices
		return raceRep, fmt.Sprint(raceChoices), e.Violation
	}
	if spec.Property == "C20" || spec.Property == "C19" || spec.Property == "C10" {
		e.Opts.DelayBound = false
		if spec.Replay != nil {
			var rp struct {
				C20     C20Cell `json:"c20"`
				Choices []int   `json:"choices"`
			}
			_ = json.Unmarshal(spec.Replay, &rp)
			_ = afero.WriteFile(memfs, "/gsc20.yaml", []byte(c20scenarioYAML), 0o644)
			_ = afero.WriteFile(memfs, "/gsc20f.yaml", []byte(c20failYAML), 0o644)
			_ = afero.WriteFile(memfs, "/gsc20u.yaml", []byte(c20unknownYAML), 0o644)
			_ = afero.WriteFile(memfs, "/gsc20n.yaml", []byte(c20namesYAML), 0o644)
			_ = afero.WriteFile(memfs, "/gsc20t.yaml", []byte(c20illTypedYAML), 0o644)
			_ = afero.WriteFile(memfs, "/gsc19.yaml", []byte(c19grpcScenarioYAML), 0o644)
			r := &c20run{cell: rp.C20}
			e.Scenario = r.scenario
			e.Opts.Bound = rp.C20.Bound
			res := e.RunOne(rp.Choices, -1, nil)
			fmt.Printf("cell %s\nend=%s\n", rp.C20.Name(), res.End)
			for i, g := range r.calls {
				fmt.Printf("  call %d: %s %s md=%v deadline=%v\n", i, g.Method, g.JSON, g.MD, g.Deadline)
			}
			fmt.Printf("  samples: %v\n", r.samples)
			if res.Err != nil {
				out.Violate(spec.Property+"|replay", res.Err.Error(), rp)
			}
			return
		}
		runC20(t, spec, out, e)
		return
	}
	if spec.Replay != nil {
		var rp struct {
			Cell    Cell  `json:"cell"`
			Choices []int `json:"choices"`
		}
		if err := json.Unmarshal(spec.Replay, &rp); err != nil {
			t.Fatal(err)
		}
		rep, _, v := explore(rp.Cell, rp.Choices)
		fmt.Printf("cell %s\nrace report:\n%s\nfault: %v\n", rp.Cell.Name(), rep, v)
		if rep != "" {
			out.Violate("C11|replay|RACE", rep, rp)
		}
		if v != nil {
			out.Violate("C11|replay|FAULT", v.Err.Error(), rp)
		}
		return
	}
	for ci, c := range cells(spec.Thorough()) {
		if !spec.Mine(ci) || (spec.Only != "" && !strings.Contains(c.Name(), spec.Only)) {
			continue
		}
		if out.OverBudget() {
			return
		}
		if !out.Begin(c.Name()) {
			continue
		}
		out.Cells++
		rep, _, v := explore(c, nil)
		out.Outcome(c.Pool, c.Name())
		if e.HarnessErr {
			out.HarnessErr = c.Name() + ": " + e.Violation.Err.Error()
			return
		}
		if rep != "" {
			first := rep
			if i := strings.Index(rep[10:], "=================="); i > 0 {
				first = rep[:i+10]
			}
			out.Violate("C11|RACE|"+raceKey(first), c.Name()+"\n"+first, map[string]any{"cell": c, "choices": []int{}})
		}
		if v != nil {
			if strings.HasPrefix(v.Err.Error(), "HARNESS:") {
				out.HarnessErr = v.Err.Error()
				return
			}
			out.Violate("C11|"+classify(v.Err)+"|"+c.Pool, c.Name()+"\n"+v.Err.Error(), map[string]any{"cell": c, "choices": v.Choices})
		}
		if ci%37 == 0 {
			out.Sample(map[string]any{"cell": c.Name()})
		}
	}
}
