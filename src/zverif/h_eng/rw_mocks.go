package h_eng

// This file is instrumented by vrewrite like the pandora sources (its channel
// operations, go statements and sleeps become scheduling points).

import (
	"context"
	"errors"
	"fmt"
	"time"

	"github.com/yandex/pandora/core"
	"github.com/yandex/pandora/core/aggregator/netsample"
	"github.com/yandex/pandora/core/warmup"
	"github.com/yandex/pandora/zverif/vs"
)

// World is everything one execution observes.
type World struct {
	T0 time.Time

	// provider
	Items         int // -1 = unbounded
	ProvRunEnd    int // 0 not started, 1 running, 2 returned
	ProvErr       error
	Acquired      map[int]int // item -> 1 acquired, 2 released
	AcquireN      int
	ReleaseN      int
	BadRelease    []string
	ProvFailAt    int  // fail after k items were handed out (-1 never); kind "prov"
	ProvFailLate  bool // fail with an error after closing the queue normally
	ProvIgnoreCtx bool

	// aggregator
	AggRunEnd  int
	Reports    []Report
	AggFailAt  string // "", "start", "end"
	AggStarted bool

	// guns
	Guns        []*Gun
	GunFailAt   int // creation index that fails (-1 never); index 0 is the warm-up gun
	BindFailAt  int // creation index whose Bind fails
	WarmFail    bool
	WarmUp      bool // guns implement WarmedUp
	WarmDur     time.Duration
	Waited      *bool     // set by the harness when Engine.Wait has returned
	Late        []string  // what components were asked to do after Engine.Wait had returned
	ProvBuf     int       // size of the provider's queue (0: hands items over one by one)
	OutAt       time.Time // when an instance first found the ammo exhausted
	Closable    bool
	ShotDur     []time.Duration
	ShotN       int
	PanicAtShot int // global shot index that panics (-1 never)
	Shots       []Shot
	Overlap     []string
	DeadCtx     []string // shots made with a gun whose Bind-time context was already done

	// schedules
	SchedFailAt int // NewRPSSchedule call index that fails (-1 never)
	SchedCalls  int
	Tokens      map[int]*Token // by thread id: last token drawn
	TokenLog    []*Token

	Cause error
	CauseBare bool // components return Cause itself (a bare context error of their own), not a wrapper
}

type Report struct {
	Thread    int
	At        time.Time
	Discarded bool
	Tok       *Token
}

type Shot struct {
	Gun    int
	Thread int
	Item   int
	At     time.Time
	Tok    *Token
}

type Token struct {
	Time   time.Time
	DrawAt time.Time
	Thread int
	Used   int // 0 unused, 1 fired, 2 discarded
}

var ErrInjected = errors.New("injected failure")

func (w *World) fail(what string) error {
	if w.CauseBare {
		return w.Cause
	}
	return fmt.Errorf(what+": %w", w.Cause)
}

// ---- provider

type Prov struct {
	w    *World
	sink chan core.Ammo
}

// NewProv: with w.ProvBuf > 0 the provider reads ahead into a queue of that size, so its Run returns
// as soon as everything is queued - long before the ammo has been used up.
func NewProv(w *World) *Prov { return &Prov{w: w, sink: make(chan core.Ammo, w.ProvBuf)} }

func (p *Prov) Run(ctx context.Context, _ core.ProviderDeps) error {
	w := p.w
	w.late("the provider was started")
	w.ProvRunEnd = 1
	defer func() { w.ProvRunEnd = 2 }()
	if w.ProvFailAt == 0 {
		close(p.sink)
		return w.fail("provider")
	}
	for i := 0; w.Items < 0 || i < w.Items; i++ {
		select {
		case p.sink <- i:
		case <-ctx.Done():
			close(p.sink)
			return nil
		}
		if w.ProvFailAt == i+1 {
			close(p.sink)
			return w.fail("provider")
		}
	}
	close(p.sink)
	if w.ProvFailLate {
		return w.fail("provider (late)")
	}
	return nil
}

func (p *Prov) Acquire() (core.Ammo, bool) {
	a, ok := <-p.sink
	if !ok && p.w.OutAt.IsZero() {
		p.w.OutAt = time.Now()
	}
	if ok {
		p.w.AcquireN++
		if p.w.Acquired[a.(int)] != 0 {
			p.w.BadRelease = append(p.w.BadRelease, fmt.Sprintf("item %d acquired twice", a.(int)))
		}
		p.w.Acquired[a.(int)] = 1
	}
	return a, ok
}

func (p *Prov) Release(a core.Ammo) {
	p.w.ReleaseN++
	if p.w.Acquired[a.(int)] != 1 {
		p.w.BadRelease = append(p.w.BadRelease, fmt.Sprintf("item %d released in state %d", a.(int), p.w.Acquired[a.(int)]))
	}
	p.w.Acquired[a.(int)] = 2
}

// ---- aggregator

type Agg struct{ w *World }

func (a *Agg) Run(ctx context.Context, _ core.AggregatorDeps) error {
	w := a.w
	w.late("the aggregator was started")
	w.AggRunEnd = 1
	defer func() { w.AggRunEnd = 2 }()
	if w.AggFailAt == "start" {
		return w.fail("aggregator")
	}
	<-ctx.Done()
	if w.AggFailAt == "end" {
		return w.fail("aggregator (3 samples were dropped)")
	}
	return nil
}

func (a *Agg) Report(s core.Sample) {
	w := a.w
	id := vs.CurrentID()
	r := Report{Thread: id, At: time.Now()}
	if ns, ok := s.(*netsample.Sample); ok && ns.Tags() == netsample.DiscardedShootTag {
		r.Discarded = true
		if t := w.Tokens[id]; t != nil {
			r.Tok = t
			t.Used = 2
			delete(w.Tokens, id)
		}
	}
	w.Reports = append(w.Reports, r)
}

// ---- gun

type Gun struct {
	w         *World
	Index     int
	Bound     bool
	Deps      core.GunDeps
	Closed    int
	inShoot   bool
	Shots     int
	Owner     int // thread id that shoots with it
	CreatedAt time.Time
}

type closableGun struct{ *Gun }

// Close is a scheduling point: closing a real gun (idle connections) takes time, so whoever closes
// can be overtaken there by the goroutines that wait for the run to end.
func (g closableGun) Close() error { vs.Yield("gun-close"); g.Gun.Closed++; return nil }

type warmGun struct{ *Gun }

func (g warmGun) WarmUp(o *warmup.Options) (any, error) {
	if g.w.WarmDur > 0 {
		time.Sleep(g.w.WarmDur)
	}
	if g.w.WarmFail {
		return nil, fmt.Errorf("warmup: %w", g.w.Cause)
	}
	return "shared", nil
}

type warmClosableGun struct {
	*Gun
}

func (g warmClosableGun) Close() error { vs.Yield("gun-close"); g.Gun.Closed++; return nil }
func (g warmClosableGun) WarmUp(o *warmup.Options) (any, error) {
	return warmGun{g.Gun}.WarmUp(o)
}

// late notes an activity of a component that begins after Engine.Wait has returned.
func (w *World) late(what string) {
	if w.Waited != nil && *w.Waited {
		w.Late = append(w.Late, what)
	}
}

func (w *World) NewGun() (core.Gun, error) {
	w.late("a gun was created")
	idx := len(w.Guns)
	g := &Gun{w: w, Index: idx, Owner: -1, CreatedAt: time.Now()}
	w.Guns = append(w.Guns, g)
	if w.GunFailAt == idx {
		return nil, fmt.Errorf("gun factory: %w", w.Cause)
	}
	switch {
	case w.WarmUp && w.Closable:
		return warmClosableGun{g}, nil
	case w.WarmUp:
		return warmGun{g}, nil
	case w.Closable:
		return closableGun{g}, nil
	}
	return g, nil
}

func (g *Gun) Bind(a core.Aggregator, d core.GunDeps) error {
	if g.w.BindFailAt == g.Index {
		return fmt.Errorf("bind: %w", g.w.Cause)
	}
	g.Bound = true
	g.Deps = d
	return nil
}

func (g *Gun) Shoot(ammo core.Ammo) {
	w := g.w
	w.late("a request was fired")
	id := vs.CurrentID()
	if g.inShoot {
		w.Overlap = append(w.Overlap, fmt.Sprintf("gun %d asked to fire twice at the same time", g.Index))
	}
	if g.Owner >= 0 && g.Owner != id {
		w.Overlap = append(w.Overlap, fmt.Sprintf("gun %d used by threads %d and %d", g.Index, g.Owner, id))
	}
	g.Owner = id
	g.inShoot = true
	if g.Bound && g.Deps.Ctx != nil && g.Deps.Ctx.Err() != nil {
		// the context handed to the gun at Bind lives as long as the run: a started instance keeps firing
		// until its profile or the ammo ends or the run is cancelled
		w.DeadCtx = append(w.DeadCtx, fmt.Sprintf("instance %d fires with a gun whose context is already done (%v)", g.Deps.InstanceID, g.Deps.Ctx.Err()))
	}
	item := ammo.(int)
	if w.Acquired[item] != 1 {
		w.BadRelease = append(w.BadRelease, fmt.Sprintf("item %d shot in state %d", item, w.Acquired[item]))
	}
	n := w.ShotN
	w.ShotN++
	s := Shot{Gun: g.Index, Thread: id, Item: item, At: time.Now()}
	if t := w.Tokens[id]; t != nil {
		s.Tok = t
		t.Used = 1
		delete(w.Tokens, id)
	}
	w.Shots = append(w.Shots, s)
	g.Shots++
	if w.PanicAtShot == n {
		g.inShoot = false
		panic(fmt.Sprintf("shot panic: %v", w.Cause))
	}
	var d time.Duration
	if len(w.ShotDur) > 0 {
		if n < len(w.ShotDur) {
			d = w.ShotDur[n]
		} else {
			d = w.ShotDur[len(w.ShotDur)-1]
		}
	}
	if d > 0 {
		time.Sleep(d)
	}
	if w.Acquired[item] != 1 {
		w.BadRelease = append(w.BadRelease, fmt.Sprintf("item %d released during its shot", item))
	}
	g.inShoot = false
}

// ---- schedule wrapper logging tokens per drawing thread

type logSched struct {
	core.Schedule
	w *World
}

func (s *logSched) Next() (time.Time, bool) {
	t, ok := s.Schedule.Next()
	if ok {
		id := vs.CurrentID()
		tok := &Token{Time: t, DrawAt: time.Now(), Thread: id}
		s.w.Tokens[id] = tok
		s.w.TokenLog = append(s.w.TokenLog, tok)
	}
	return t, ok
}

func (w *World) WrapSchedule(s core.Schedule) core.Schedule { return &logSched{Schedule: s, w: w} }

// Canceller cancels after the given fake delay.
func Canceller(delay time.Duration, cancel func(), mark func()) {
	if delay > 0 {
		time.Sleep(delay)
	}
	mark()
	cancel()
}
