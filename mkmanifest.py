#!/usr/bin/env python3
"""regenerate MANIFEST.json from checks.json (kept in git; run after editing checks.json)"""
import json
checks = json.load(open('checks.json'))
props = [json.loads(l)['id'] for l in open('properties.jsonl')]
pending = json.load(open('pending.json')) if __import__('os').path.exists('pending.json') else {}
man = {
 "version": 1,
 "setup_cmd": "./setup.sh",
 "hooks": {
  "guard": "overlay (no source hooks): instrumentation is applied at check time by bin/vrewrite through `go build -overlay`; /repo carries only fix: commits",
  "enable": "./vcheck build <ID> rewrites the listed packages of /repo's working tree into .build/<ID>/rw and compiles them with `go1.26.8 test -c -overlay .build/<ID>/overlay.json`",
  "baseline_off_cmd": "cd /repo && go test -mod=mod -json -vet=off -count=1 -timeout 25m ./...",
  "source_commits": [],
  "add_only": True,
 },
 "engines": [
  {"name": "vs", "path": "src/zverif/vs",
   "serves_properties": sorted(k for k, c in checks.items() if c.get('engine', 'vs') == 'vs'),
   "kind_free_text": "controlled cooperative scheduler inside a testing/synctest bubble (fake clock) + stateless DFS explorer with iterative preemption bounding, select-priority and environment choices; runs the real pandora code instrumented by tools/cmd/vrewrite through a go build overlay"},
  {"name": "venum", "path": "src/zverif/venum",
   "serves_properties": sorted(k for k, c in checks.items() if c.get('engine') == 'venum'),
   "kind_free_text": "bounded-exhaustive enumeration of inputs/configurations/operation sequences with closed-form cardinality checks, each element executed on the real code and compared step by step with a reference model"},
 ],
 "checks": [],
 "not_applicable": [],
 "notes": "All checks are `./vcheck run <ID> --tier <tier>`; they rebuild from /repo's working tree on every run. known_findings.json lists fixed and open findings. See DESIGN.md.",
}
for pid in props:
    if pid in checks:
        c = checks[pid]
        man["checks"].append({
         "property_id": pid,
         "quick_cmd": "./vcheck run %s --tier quick" % pid,
         "thorough_cmd": "./vcheck run %s --tier thorough" % pid,
         "evidence_file": "/verif/evidence/%s.json" % pid,
         "replay_cmd_template": "./vcheck replay {path}",
         "engine": c.get('engine', 'vs'),
         "level_claimed": {"category": c.get('level', 'model_checking'), "text": c['level_text'], "design_ref": c.get('design_ref', 'DESIGN.md section 3 ' + pid)},
         "level_note": c['level_note'],
         "technique": c['technique'],
        })
    else:
        man["not_applicable"].append({"property_id": pid, "reason": pending.get(pid, "check not built yet in this round (planned, see DESIGN.md section 3); not claimed")})
json.dump(man, open('MANIFEST.json', 'w'), indent=1)
print("checks:", len(man["checks"]), "not claimed:", len(man["not_applicable"]))
