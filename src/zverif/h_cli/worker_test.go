// Package h_cli decides the process-stop tier of C06: the real
// cli.awaitPandoraTermination + runEngine around a real engine with a real phout
// aggregator; SIGINT/SIGTERM are delivered at every scheduling point; the
// oracle is evaluated at the exit event (zap Fatal hook or main returning).
package h_cli

import (
	"encoding/json"
	"fmt"
	"strconv"
	"strings"
	"syscall"
	"testing"
	"time"

	"github.com/spf13/afero"
	"github.com/yandex/pandora/core"
	"github.com/yandex/pandora/core/aggregator/netsample"
	"github.com/yandex/pandora/core/coreutil"
	"github.com/yandex/pandora/core/engine"
	"github.com/yandex/pandora/core/schedule"
	"github.com/yandex/pandora/lib/monitoring"
	"github.com/yandex/pandora/zverif/hutil"
	"github.com/yandex/pandora/zverif/vs"
	"github.com/yandex/pandora/zverif/vsignal"
	"go.uber.org/zap"
	"go.uber.org/zap/zapcore"
)

type Cell struct {
	Signal    string  `json:"signal"` // INT TERM none
	SignalMs  []int64 `json:"signal_ms"`
	Second    bool    `json:"second_signal"`
	Instances int     `json:"instances"`
	Items     int     `json:"items"`
	RPS       string  `json:"rps"` // once5 const
	ShotMs    int64   `json:"shot_ms"`
	Queue     int     `json:"queue"`
	Bound     int     `json:"bound"`
	Startup   string  `json:"startup,omitempty"` // "" once(instances) | const: one instance every 500ms | pause: 1 instance, 1s pause, 1 instance
	FailMs    int64   `json:"fail_ms,omitempty"` // > 0: a second pool whose provider fails at this instant (the run fails by itself)
}

func (c Cell) Name() string {
	return fmt.Sprintf("cli|sig=%s@%v|second=%v|inst=%d|items=%d|rps=%s|shot=%dms|queue=%d|startup=%s", c.Signal, c.SignalMs, c.Second, c.Instances, c.Items, c.RPS, c.ShotMs, c.Queue, c.Startup) + map[bool]string{true: fmt.Sprintf("|poolfail@%dms", c.FailMs)}[c.FailMs > 0]
}

type exitHook struct{ w *World }

func (h exitHook) OnWrite(e *zapcore.CheckedEntry, _ []zapcore.Field) {
	exitEvent(h.w, "log.Fatal: "+e.Message)
	// the process is gone: this goroutine must not continue
	vsExit()
}

type run struct {
	cell Cell
	w    *World
	fs   afero.Fs
}

func (r *run) scenario(x *vs.X) func(end, msg string) error {
	c := r.cell
	vsignal.Reset()
	w := &World{T0: time.Now(), Items: c.Items, ShotDur: time.Duration(c.ShotMs) * time.Millisecond}
	r.w = w
	r.fs = afero.NewMemMapFs()
	ph, err := netsample.NewPhout(r.fs, netsample.PhoutConfig{Destination: "phout.log", ID: true, SampleQueueSize: c.Queue, FlushTime: time.Second,
		Buffer: coreutil.BufferSizeConfig{BufferSize: 4096}}) // a small buffer: abandoned executions leak it
	if err != nil {
		panic(err)
	}
	w.Snapshot = func() string {
		b, _ := afero.ReadFile(r.fs, "phout.log")
		return string(b)
	}
	var rps func() (core.Schedule, error)
	switch c.RPS {
	case "once5":
		rps = func() (core.Schedule, error) { return schedule.NewOnce(5), nil }
	case "const6":
		rps = func() (core.Schedule, error) { return schedule.NewConst(2, 6*time.Second), nil }
	default:
		rps = func() (core.Schedule, error) { return schedule.NewConst(2, 10*time.Second), nil }
	}
	metrics := engine.Metrics{Request: &monitoring.Counter{}, Response: &monitoring.Counter{}, InstanceStart: &monitoring.Counter{}, InstanceFinish: &monitoring.Counter{}}
	pools := []engine.InstancePoolConfig{{
		ID:              "p",
		Provider:        &prov{w: w, sink: make(chan core.Ammo)},
		Aggregator:      netsample.WrapAggregator(ph),
		NewGun:          func() (core.Gun, error) { return &gun{w: w}, nil },
		NewRPSSchedule:  rps,
		StartupSchedule: startup(c),
		DiscardOverflow: true,
	}}
	if c.FailMs > 0 {
		pools = append(pools, engine.InstancePoolConfig{
			ID:              "q",
			Provider:        &failProv{w: w, after: time.Duration(c.FailMs) * time.Millisecond, sink: make(chan core.Ammo)},
			Aggregator:      nullAgg{},
			NewGun:          func() (core.Gun, error) { return &gun{w: &World{}}, nil },
			NewRPSSchedule:  func() (core.Schedule, error) { return schedule.NewOnce(1), nil },
			StartupSchedule: schedule.NewOnce(1),
			DiscardOverflow: true,
		})
	}
	eng := engine.New(zap.NewNop(), metrics, engine.Config{Pools: pools})
	log := zap.New(zapcore.NewNopCore(), zap.WithFatalHook(exitHook{w}))
	log = zap.New(fatalCore{}, zap.WithFatalHook(exitHook{w}))
	x.Deadline = w.T0.Add(10 * time.Minute)
	vs.Go("main", func() { Main(w, eng, log) })
	if c.Signal != "none" && c.FailMs > 0 && len(c.SignalMs) == 0 {
		w.WindowSignal = syscall.SIGINT
		if c.Signal == "TERM" {
			w.WindowSignal = syscall.SIGTERM
		}
	} else if c.Signal != "none" {
		sig := syscall.SIGINT
		if c.Signal == "TERM" {
			sig = syscall.SIGTERM
		}
		w.SignalAt = time.Duration(c.SignalMs[vs.Choose(len(c.SignalMs), "signal-delay")]) * time.Millisecond
		vs.Go("signaller", func() { Signaller(w, sig, c.Second) })
	}
	return func(end, msg string) error {
		if err := r.check(end, msg); err != nil {
			return fmt.Errorf("%v\n  signalled=%v at %v; exit %q at %v; reports returned before exit: %d; lines in the output at exit: %d\n  output at exit:\n%s", err,
				w.Signalled, w.SignalTime, w.ExitMsg, w.ExitAt, w.ExitReported, strings.Count(w.ExitOutput, "\n"), w.ExitOutput)
		}
		return nil
	}
}

func startup(c Cell) core.Schedule {
	switch c.Startup {
	case "const":
		return schedule.NewConst(2, time.Duration(c.Instances)*500*time.Millisecond)
	case "pause":
		return schedule.NewComposite(schedule.NewOnce(1), schedule.NewConst(0, time.Second), schedule.NewOnce(int64(c.Instances-1)))
	}
	return schedule.NewOnce(int64(c.Instances))
}

// fatalCore lets Fatal entries through (so that the fatal hook runs) and drops everything else.
type fatalCore struct{}

func (fatalCore) Enabled(l zapcore.Level) bool        { return l >= zapcore.FatalLevel }
func (c fatalCore) With([]zapcore.Field) zapcore.Core { return c }
func (c fatalCore) Check(e zapcore.Entry, ce *zapcore.CheckedEntry) *zapcore.CheckedEntry {
	if c.Enabled(e.Level) {
		return ce.AddCore(e, c)
	}
	return ce
}
func (fatalCore) Write(zapcore.Entry, []zapcore.Field) error { return nil }
func (fatalCore) Sync() error                                { return nil }

func (r *run) check(end, msg string) error {
	w := r.w
	if end == vs.EndCap {
		return nil
	}
	if !w.Exited {
		return fmt.Errorf("NO-EXIT: execution ended with %s (%s) and the process never reached its exit", end, msg)
	}
	out := w.ExitOutput
	if out != "" && !strings.HasSuffix(out, "\n") {
		return fmt.Errorf("TORN: the output at exit does not end with a newline")
	}
	seen := map[uint64]bool{}
	lines := 0
	discardLines := 0
	for _, l := range strings.Split(strings.TrimSuffix(out, "\n"), "\n") {
		if l == "" {
			continue
		}
		lines++
		f := strings.Split(l, "\t")
		if len(f) != 12 {
			return fmt.Errorf("MALFORMED: line with %d fields at exit: %q", len(f), l)
		}
		i := strings.LastIndex(f[1], "#")
		id, err := strconv.ParseUint(f[1][i+1:], 10, 64)
		if i < 0 || err != nil {
			return fmt.Errorf("MALFORMED: %q", l)
		}
		if f[1][:i] == "discarded" || f[10] == "777" {
			// a discarded request: tag 'discarded', net code 777, no id
			if f[1][:i] != "discarded" || f[10] != "777" {
				return fmt.Errorf("DISCARD-SAMPLE: discarded request written as %q (tag 'discarded' and net code 777 expected together)", l)
			}
			discardLines++
			continue
		}
		if seen[id] {
			return fmt.Errorf("DUPLICATE: sample %d written twice", id)
		}
		seen[id] = true
	}
	if r.cell.Signal == "none" && r.cell.RPS == "const6" && r.cell.Items < 0 {
		// the run ends by its profile: every one of the 12 tokens was either fired or reported as discarded
		if w.Shots+discardLines != 12 {
			return fmt.Errorf("DISCARD-ACCOUNTING: %d requests fired and %d discarded samples written for a profile of 12 tokens", w.Shots, discardLines)
		}
	}
	// samples reported after the stop request race with the aggregator's own shutdown and may be
	// dropped (the core.Aggregator contract allows it); the obligation covers reports that had returned
	// when the signal was delivered - or, without a signal, all of them
	must := w.ExitReported
	if w.Signalled && w.ReportedAtSignal < must {
		must = w.ReportedAtSignal
	}
	if w.Failed && w.ReportedAtFail < must {
		must = w.ReportedAtFail // the run was stopped by its own failure first
	}
	for _, id := range w.Reported[:must] {
		if !seen[id] {
			return fmt.Errorf("LOST-AT-EXIT: sample %d had been reported when the stop was requested but is not in the output at exit (%d lines written, %d reports before the signal, %d before exit)", id, lines, must, w.ExitReported)
		}
	}
	return nil
}

func cells(thorough bool) []Cell {
	var out []Cell
	for _, sig := range []string{"INT", "TERM"} {
		for _, inst := range []int{1, 2} {
			for _, shot := range []int64{0, 300} {
				for _, q := range []int{1, 64} {
					b := 1
					if thorough && inst == 1 {
						b = 2
					}
					out = append(out, Cell{Signal: sig, SignalMs: []int64{0, 700, 1200, 2600}, Instances: inst, Items: -1, RPS: "const", ShotMs: shot, Queue: q, Bound: b})
				}
			}
			out = append(out, Cell{Signal: sig, SignalMs: []int64{0, 1}, Instances: inst, Items: 3, RPS: "once5", Queue: 64, Bound: 1})
			out = append(out, Cell{Signal: sig, SignalMs: []int64{700}, Second: true, Instances: inst, Items: -1, RPS: "const", ShotMs: 5000, Queue: 64, Bound: 1})
		}
	}
	// the run fails by itself (a second pool's provider fails at 700 ms) and a signal arrives around that moment,
	// while the process is waiting for the other pool's results to be written out
	for _, sig := range []string{"INT", "TERM", "none"} {
		for _, shot := range []int64{0, 300} {
			ms := []int64{699, 700, 701}
			if sig == "none" {
				ms = nil
			}
			out = append(out, Cell{Signal: sig, SignalMs: ms, Instances: 1, Items: -1, RPS: "const", ShotMs: shot, Queue: 64, Bound: 1, FailMs: 700})
			if sig != "none" && shot > 0 {
				// no signaller thread: the signal is an environment choice at the moment the stop cuts a shot short
				for _, inst := range []int{1, 2} {
					out = append(out, Cell{Signal: sig, Instances: inst, Items: -1, RPS: "const", ShotMs: shot, Queue: 64, Bound: 1, FailMs: 700})
				}
			}
		}
	}
	// normal end of a pool whose instances are still being started when the ammo runs out, with shots in flight
	for _, st := range []string{"const", "pause"} {
		for _, inst := range []int{2, 3} {
			for _, items := range []int{1, 2, 3} {
				for _, shot := range []int64{300, 700, 1500} {
					out = append(out, Cell{Signal: "none", Instances: inst, Items: items, RPS: "once5", ShotMs: shot, Queue: 64, Bound: 1, Startup: st})
				}
			}
		}
	}
	out = append(out, Cell{Signal: "none", Instances: 2, Items: 4, RPS: "once5", Queue: 64, Bound: 1})
	// a slow target with discard_overflow: discarded requests go through the real sample pool and the real phout
	for _, inst := range []int{1, 2} {
		for _, shot := range []int64{2500, 5000} {
			out = append(out, Cell{Signal: "none", Instances: inst, Items: -1, RPS: "const6", ShotMs: shot, Queue: 64, Bound: 0})
		}
	}
	out = append(out, Cell{Signal: "none", Instances: 1, Items: -1, RPS: "once5", Queue: 1, Bound: 1})
	return out
}

func classify(err error) string {
	s := err.Error()
	if i := strings.Index(s, ":"); i > 0 && i < 24 {
		return s[:i]
	}
	return "other"
}

func TestWorker(t *testing.T) {
	spec, out := hutil.Load()
	if spec == nil {
		t.Skip("no VERIF_SPEC")
	}
	defer out.Save()
	e := vs.NewExplorer(t, vs.Opts{MaxPoints: 8000, DelayBound: true}, nil)
	e.RealStop = out.Deadline()
	e.Beat = out.BeatPtr()
	if spec.Replay != nil {
		var rp struct {
			Cell    Cell  `json:"cli_cell"`
			Choices []int `json:"choices"`
		}
		_ = json.Unmarshal(spec.Replay, &rp)
		r := &run{cell: rp.Cell}
		e.Scenario = r.scenario
		e.Opts.Bound = rp.Cell.Bound
		res := e.RunOne(rp.Choices, -1, nil)
		fmt.Printf("cell %s\nend=%s %s\nverdict: %v\n", rp.Cell.Name(), res.End, res.Msg, res.Err)
		if res.Err != nil {
			out.Violate("C06|replay", res.Err.Error(), rp)
		}
		return
	}
	for ci, c := range cells(spec.Thorough()) {
		if !spec.Mine(ci) || (spec.Only != "" && !strings.Contains(c.Name(), spec.Only)) {
			continue
		}
		if out.OverBudget() {
			return
		}
		out.Progress(c.Name())
		out.Cells++
		r := &run{cell: c}
		e.Scenario = r.scenario
		e.Opts.Bound = c.Bound
		e.Violation, e.HarnessErr, e.BoundDone, e.CapHit = nil, false, -1, ""
		ex0, n0, s0 := e.Execs, e.Nodes, e.Steps
		e.OnExec = func(res *vs.Result) {
			out.Outcome(c.Name(), fmt.Sprintf("%s|%d|%d", r.w.ExitMsg, r.w.ExitReported, strings.Count(r.w.ExitOutput, "\n")))
		}
		complete := e.Explore()
		out.Evals += int64(e.Execs - ex0)
		out.States += int64(e.Nodes - n0)
		out.Transitions += int64(e.Steps - s0)
		if !complete || e.CapHit != "" {
			out.Cap("cell %s: %s", c.Name(), e.CapHit)
		}
		if e.HarnessErr {
			out.HarnessErr = c.Name() + ": " + e.Violation.Err.Error()
			return
		}
		if v := e.Violation; v != nil {
			flaky := false
			for k := 0; k < 3; k++ {
				if res := e.RunOne(v.Choices, -1, nil); res.Err == nil || classify(res.Err) != classify(v.Err) {
					flaky = true
				}
			}
			out.Violate("C06|process-stop|"+classify(v.Err)+"|"+c.Signal, c.Name()+fmt.Sprintf(" (deviations=%d)\n", v.Preempts)+v.Err.Error(), map[string]any{"cli_cell": c, "choices": v.Choices})
			if flaky {
				out.Violations[len(out.Violations)-1].Flaky = true
			}
		}
		if ci%7 == 0 {
			out.Sample(map[string]any{"cell": c.Name(), "executions": e.Execs - ex0})
		}
	}
}
