#!/bin/bash
# Offline setup: build the rewriter, warm the go1.26.8 build cache for the harness builds.
set -e
cd "$(dirname "$0")"
export GOFLAGS=-mod=mod GOPROXY=off GOSUMDB=off GOTOOLCHAIN=local
mkdir -p bin evidence replays .build
(cd tools && go build -o ../bin/vrewrite ./cmd/vrewrite)
# warm caches: build every harness once (compile only)
for id in $(python3 -c "import json;print(' '.join(json.load(open('checks.json')).keys()))"); do
  ./vcheck build "$id" >/dev/null || { echo "setup: build of $id failed" >&2; exit 1; }
done
echo setup ok
