package h_scn

// Instrumented by vrewrite: the closed system around one scenario provider and its guns.

import (
	"context"
	"fmt"
	"io"
	"net/http"
	"sort"
	"strings"
	"time"

	httpscenario "github.com/yandex/pandora/components/guns/http_scenario"
	"github.com/yandex/pandora/core"
	"github.com/yandex/pandora/core/aggregator/netsample"
	"go.uber.org/zap"
)

// Sent is one request as the scripted client saw it.
type Sent struct {
	Inst   int
	Shot   int
	Method string
	URI    string
	Host   string
	Header http.Header
	Body   string
	At     time.Duration
}

type Resp struct {
	Kind string // tok notok s500 err bad ok200 (see model)
}

type Sample struct {
	Inst  int
	Shot  int
	Tag   string
	Proto int
	Err   error
	At    time.Duration
}

type ShotRec struct {
	Inst     int
	Scenario string
	Start    time.Duration
	End      time.Duration
}

type World struct {
	T0      time.Time
	Script  func(n int, s Sent) Resp // n: global request counter, 1-based
	Sent    []Sent
	Samples []Sample
	Shots   []ShotRec
	RunErr  error
	RunDone bool
	Panics  []string
	Defs    []string // the shared scenario definition as handed to every shot
	curShot map[int]int
}

type client struct {
	w    *World
	inst int
}

func (c *client) CloseIdleConnections() {}

func (c *client) Do(req *http.Request) (*http.Response, error) {
	w := c.w
	body := ""
	if req.Body != nil {
		b, _ := io.ReadAll(req.Body)
		body = string(b)
	}
	s := Sent{Inst: c.inst, Shot: w.curShot[c.inst], Method: req.Method, URI: req.URL.RequestURI(), Host: req.Host, Header: req.Header.Clone(), Body: body, At: time.Since(w.T0)}
	w.Sent = append(w.Sent, s)
	r := w.Script(len(w.Sent), s)
	mk := func(code int, b string) (*http.Response, error) {
		return &http.Response{StatusCode: code, Status: fmt.Sprintf("%d x", code), Proto: "HTTP/1.1", ProtoMajor: 1, ProtoMinor: 1,
			Header: http.Header{"Content-Type": []string{"application/json"}, "X-Request-Id": []string{"rid-1"}, "Etag": []string{"\"v1\""}, "X-Auth": []string{"Bearer abc123"}}, Body: io.NopCloser(strings.NewReader(b)), Request: req}, nil
	}
	k := len(w.Sent)
	switch r.Kind {
	case "tok":
		return mk(200, fmt.Sprintf(`{"token":"T%d","fine":1}`, k))
	case "s500":
		return mk(500, fmt.Sprintf(`{"token":"T%d","fine":1}`, k))
	case "bad":
		return mk(200, fmt.Sprintf(`{"token":"T%d"}`, k))
	case "err":
		return nil, fmt.Errorf("scripted transport error")
	}
	return mk(200, "ok-body")
}

type agg struct {
	w    *World
	inst int
}

func (a *agg) Run(ctx context.Context, _ core.AggregatorDeps) error { return nil }
func (a *agg) Report(s *netsample.Sample) {
	w := a.w
	w.Samples = append(w.Samples, Sample{Inst: a.inst, Shot: w.curShot[a.inst], Tag: s.Tags(), Proto: s.ProtoCode(), Err: s.Err(), At: time.Since(w.T0)})
}

// Start runs the provider and the instances; each instance shoots until the provider is out of ammo.
func Start(ctx context.Context, cancel func(), w *World, p core.Provider, guns []*httpscenario.ScenarioGun) {
	w.curShot = map[int]int{}
	go func() {
		defer func() {
			if r := recover(); r != nil {
				w.Panics = append(w.Panics, fmt.Sprint("provider: ", r))
			}
		}()
		err := p.Run(ctx, core.ProviderDeps{Log: zap.NewNop()})
		w.RunErr, w.RunDone = err, true
	}()
	done := 0
	for i := range guns {
		i := i
		go func() {
			defer func() {
				if r := recover(); r != nil {
					w.Panics = append(w.Panics, fmt.Sprintf("instance %d: %v", i, r))
				}
				done++
				if done == len(guns) {
					cancel()
				}
			}()
			for {
				a, ok := p.Acquire()
				if !ok {
					return
				}
				sc := a.(*httpscenario.Scenario)
				w.Defs = append(w.Defs, defString(sc))
				w.curShot[i]++
				rec := ShotRec{Inst: i, Scenario: sc.Name, Start: time.Since(w.T0)}
				guns[i].Shoot(sc)
				rec.End = time.Since(w.T0)
				w.Shots = append(w.Shots, rec)
				p.Release(a)
			}
		}()
	}
}

func defString(sc *httpscenario.Scenario) string {
	var sb strings.Builder
	fmt.Fprintf(&sb, "%s minwait=%v:", sc.Name, sc.MinWaitingTime)
	for _, r := range sc.Requests {
		body := "<nil>"
		if r.Body != nil {
			body = *r.Body
		}
		ks := make([]string, 0, len(r.Headers))
		for k := range r.Headers {
			ks = append(ks, k)
		}
		sort.Strings(ks)
		fmt.Fprintf(&sb, " %s %s %s body=%s sleep=%v", r.Name, r.Method, r.URI, body, r.Sleep)
		for _, k := range ks {
			fmt.Fprintf(&sb, " %s=%q", k, r.Headers[k])
		}
		sb.WriteString(";")
	}
	return sb.String()
}
