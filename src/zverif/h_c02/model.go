package h_c02

import (
	"fmt"
	"math"
	"time"

	"github.com/yandex/pandora/core"
	"github.com/yandex/pandora/core/schedule"
)

// Tree is an abstract schedule: a leaf or a composite of children.
type Tree struct {
	Kind string  `json:"k"`           // once const line unlimited istep step comp
	A    float64 `json:"a,omitempty"` // once: n; const: ops; line/step/istep: from
	B    float64 `json:"b,omitempty"` // line/step/istep: to
	C    int64   `json:"c,omitempty"` // step size
	D    int64   `json:"d,omitempty"` // duration in ms
	Ch   []Tree  `json:"ch,omitempty"`
}

func (t Tree) String() string {
	switch t.Kind {
	case "once":
		return fmt.Sprintf("once(%d)", int64(t.A))
	case "const":
		return fmt.Sprintf("const(%g,%dms)", t.A, t.D)
	case "line":
		return fmt.Sprintf("line(%g,%g,%dms)", t.A, t.B, t.D)
	case "unlimited":
		return fmt.Sprintf("unlimited(%dms)", t.D)
	case "istep":
		return fmt.Sprintf("istep(%d,%d,%d,%dms)", int64(t.A), int64(t.B), t.C, t.D)
	case "step":
		return fmt.Sprintf("step(%g,%g,%d,%dms)", t.A, t.B, t.C, t.D)
	}
	s := "["
	for i, c := range t.Ch {
		if i > 0 {
			s += ","
		}
		s += c.String()
	}
	return s + "]"
}

func ms(d int64) time.Duration { return time.Duration(d) * time.Millisecond }

// Build constructs the real schedule through the public constructors.
func (t Tree) Build() core.Schedule {
	switch t.Kind {
	case "once":
		return schedule.NewOnce(int64(t.A))
	case "const":
		return schedule.NewConst(t.A, ms(t.D))
	case "line":
		return schedule.NewLine(t.A, t.B, ms(t.D))
	case "unlimited":
		return schedule.NewUnlimited(ms(t.D))
	case "istep":
		return schedule.NewInstanceStep(int64(t.A), int64(t.B), t.C, ms(t.D))
	case "step":
		return schedule.NewStep(t.A, t.B, t.C, ms(t.D))
	case "comp":
		var ch []core.Schedule
		for _, c := range t.Ch {
			ch = append(ch, c.Build())
		}
		return schedule.NewComposite(ch...)
	}
	panic("bad tree kind " + t.Kind)
}

// part is one leaf of the flattened reference model.
type part struct {
	unlimited bool
	n         int64
	dur       time.Duration
	at        func(i int64) float64 // seconds from the part's start
}

func constPart(ops float64, d time.Duration) part {
	n := int64(math.Floor(ops*d.Seconds() + 1e-9))
	return part{n: n, dur: d, at: func(i int64) float64 { return float64(i) / ops }}
}

// Flatten gives the reference model: the sequence of leaf parts.
func (t Tree) Flatten() []part {
	switch t.Kind {
	case "once":
		return []part{{n: int64(t.A), at: func(int64) float64 { return 0 }}}
	case "const":
		return []part{constPart(t.A, ms(t.D))}
	case "line":
		if t.A == t.B {
			return []part{constPart(t.A, ms(t.D))}
		}
		d := ms(t.D)
		a := (t.B - t.A) / d.Seconds()
		b := t.A
		x := d.Seconds()
		n := int64(math.Floor(a*x*x/2 + b*x + 1e-9))
		return []part{{n: n, dur: d, at: func(i int64) float64 { return (math.Sqrt(2*a*float64(i)+b*b) - b) / a }}}
	case "unlimited":
		return []part{{unlimited: true, dur: ms(t.D)}}
	case "istep":
		ps := []part{{n: int64(t.A), at: func(int64) float64 { return 0 }}}
		for i := int64(t.A) + t.C; i <= int64(t.B); i += t.C {
			ps = append(ps, constPart(0, ms(t.D)))
			ps = append(ps, part{n: t.C, at: func(int64) float64 { return 0 }})
		}
		return ps
	case "step":
		if t.A == t.B {
			return []part{constPart(t.A, ms(t.D))}
		}
		var ps []part
		for r := t.A; r <= t.B; r += float64(t.C) {
			ps = append(ps, constPart(r, ms(t.D)))
		}
		return ps
	case "comp":
		var ps []part
		for _, c := range t.Ch {
			ps = append(ps, c.Flatten()...)
		}
		if len(ps) == 0 {
			return []part{{n: 0, at: func(int64) float64 { return 0 }}}
		}
		return ps
	}
	panic("bad tree kind " + t.Kind)
}

// mstate is the state of the sequential reference model.
type mstate struct {
	c       int   // current part
	i       int64 // tokens drawn from the current (known) part
	started bool
	s0      time.Time
}

type model struct{ parts []part }

func (m *model) startOf(st mstate, j int) time.Time {
	t := st.s0
	for k := 0; k < j; k++ {
		t = t.Add(m.parts[k].dur)
	}
	return t
}

// next is the sequential semantics of Next at instant now.
func (m *model) next(st mstate, now time.Time) (mstate, time.Time, bool, bool) {
	if !st.started {
		st.started = true
		st.s0 = now
	}
	for {
		p := m.parts[st.c]
		s := m.startOf(st, st.c)
		f := s.Add(p.dur)
		if p.unlimited {
			if now.Before(f) {
				return st, now, true, true // token time is "now"
			}
		} else if st.i < p.n {
			tok := s.Add(time.Duration(p.at(st.i) * 1e9))
			st.i++
			return st, tok, true, false
		}
		if st.c == len(m.parts)-1 {
			return st, f, false, false
		}
		st.c++
		st.i = 0
	}
}

// left: rem is the exact number of remaining tokens of known parts; strict
// means some unlimited part is genuinely unfinished (result must be negative);
// grey means a later, not yet started unlimited part whose window has elapsed
// (negative and exact are both accepted).
func (m *model) left(st mstate, now time.Time) (rem int64, strict, grey bool) {
	// drained: every part before j has handed out all it had (known parts) or is over (unlimited
	// parts whose window has elapsed): then part j is the one in force whether or not a Next call
	// has made the switch, and an elapsed unlimited part j is finished, not "unknown".
	drained := true
	for j := st.c; j < len(m.parts); j++ {
		p := m.parts[j]
		if p.unlimited {
			if !st.started {
				strict = true
				drained = false
				continue
			}
			f := m.startOf(st, j).Add(p.dur)
			if now.Before(f) {
				strict = true
				drained = false
			} else if j > st.c && !drained {
				grey = true
			}
			continue
		}
		if j == st.c {
			if p.n > st.i {
				rem += p.n - st.i
				drained = false
			}
		} else {
			rem += p.n
			if p.n > 0 {
				drained = false
			}
		}
	}
	return
}
