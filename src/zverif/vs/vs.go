// Package vs is the controlled scheduler and stateless explorer used by the
// model-checking harnesses. It is mapped into the pandora module through a
// `go build -overlay` (import path github.com/yandex/pandora/zverif/vs).
//
// One execution runs inside a testing/synctest bubble. Managed goroutines
// ("threads") run one at a time: a thread runs only while it holds the baton
// and gives it up at every scheduling point (Before/Point/Select/...). The
// controller (the bubble's root goroutine) learns that the running thread has
// parked, blocked natively or exited from synctest.Wait().
//
// Every function in this package is //go:norace and brackets its own
// synchronisation with runtime.RaceDisable/RaceEnable, so that under -race the
// baton hand-offs do not create happens-before edges between program threads.
// No maps, no append and no sync/atomic in thread-side functions.
package vs

import (
	"fmt"
	"runtime"
	"sync/atomic"
	"testing"
	"testing/synctest"
	"time"
)

// ---------------------------------------------------------------------------
// thread state

const (
	stStarting = iota
	stParked
	stRunning
	stInOp   // holds the baton, inside a native operation that may block
	stNative // blocked natively; baton was taken away
	stDone
)

const (
	OpStart = iota
	OpChan
	OpSelect
	OpResume
	OpLock
	OpRLock
	OpOnce
	OpWait
	OpAtomic
	OpYield
	OpSleep
	OpPoll // a loop that has run PollEvery iterations without a scheduling point gives way (see Loop)
)

var opNames = [...]string{"start", "chan", "select", "resume", "lock", "rlock", "once", "wgwait", "atomic", "yield", "sleep", "poll"}

// PollEvery: a thread that executes this many loop back-edges / function entries without reaching a
// scheduling point is polling (or computing for long): it gives way to the other runnable threads -
// which costs no preemption - and, when only such threads are runnable, to the clock. Its iteration
// count keeps growing across these yields, so a loop that nothing ever ends still ends as SPIN.
var PollEvery int64 = 20000

const MaxThreads = 64

type Thread struct {
	ID     int
	Name   string
	goid   uint64
	status int
	wake   chan struct{}
	opKind int
	opObj  any
	selIdx int
}

type Point struct {
	Kind   byte // 's' schedule, 'c' select priority, 'e' environment choice
	N      int  // number of alternatives
	Chosen int
	Pre    bool // alternatives > 0 cost one preemption
	Adv    bool // last alternative is ADVANCE (always costs 1)
	Fired  int  // select: clause that actually fired (-1 unknown)
	Thread int  // thread chosen / calling
	Op     int
	Label  string
}

const (
	EndComplete = "complete"
	EndDeadlock = "deadlock"
	EndTimeout  = "timeout"
	EndSpin     = "spin"
	EndCap      = "cap"
	EndPruned   = "pruned"
	EndError    = "error"
	// EndPanic: a goroutine started by the code under test panicked and nothing recovered it - outside
	// the explorer that is the end of the process.
	EndPanic = "panic"
)

// X is one execution.
type X struct {
	T        *testing.T
	threads  [MaxThreads]*Thread
	nthreads int
	running  *Thread
	last     *Thread
	ctl      chan struct{}
	killed   bool
	draining bool // choices no longer recorded, default choice taken
	stopNow  bool // pruned: stop at the next quiescence
	end      string
	endMsg   string

	prefix  []int
	points  []Point
	npoints int
	opts    *Opts

	// dup-pruning of select alternatives
	dupIdx  int
	dupSeen []int

	Deadline time.Time // fake-time deadline; zero = none
	T0       time.Time
	onAbort  func()

	preempts    int
	steps       int
	pollQuantum time.Duration
	Log         []string // harness observation log
}

type Opts struct {
	Bound      int  // max preemptions (+ADVANCE deviations)
	Advance    bool // offer ADVANCE alternatives
	MaxPoints  int  // cap on choice points per execution
	SpinLimit  int64
	Horizon    time.Duration
	AdvanceMax time.Duration // longest stall an ADVANCE alternative may cause
	DelayBound bool          // every non-default scheduling choice costs 1 (delay bounding), not only preemptions
	Policy     int           // default order of runnable threads: 0 ascending ids, 1 descending ids
	PollClock  bool          // when only polling threads (see PollEvery) are runnable, let fake time pass
}

func (o *Opts) defaults() {
	if o.MaxPoints == 0 {
		o.MaxPoints = 20000
	}
	if o.SpinLimit == 0 {
		o.SpinLimit = 2000000
	}
	if o.AdvanceMax == 0 {
		o.AdvanceMax = time.Hour
	}
	if o.Horizon == 0 {
		o.Horizon = 100000 * time.Hour
	}
}

var cur *X

// loop back-edge counter (spin detection). Global and unsynchronised on purpose.
var loopCount int64
var loopLimit int64 = 1 << 62
var spinFlag bool

// ---------------------------------------------------------------------------
// goroutine identity

//go:norace
func goid() uint64 {
	var buf [48]byte
	n := runtime.Stack(buf[:], false)
	var id uint64
	for i := 10; i < n; i++ {
		c := buf[i]
		if c < '0' || c > '9' {
			break
		}
		id = id*10 + uint64(c-'0')
	}
	return id
}

//go:norace
func self() (*X, *Thread) {
	x := cur
	if x == nil {
		return nil, nil
	}
	g := goid()
	for i := 0; i < x.nthreads; i++ {
		t := x.threads[i]
		if t != nil && t.goid == g {
			return x, t
		}
	}
	return x, nil
}

// CurrentID returns the id of the calling managed thread, or -1.
//
//go:norace
func CurrentID() int {
	_, t := self()
	if t == nil {
		return -1
	}
	return t.ID
}

// Active reports whether the calling goroutine is a managed thread of a live
// (not killed) execution.
//
//go:norace
func Active() bool {
	x, t := self()
	return t != nil && !x.killed
}

// ---------------------------------------------------------------------------
// thread side

//go:norace
func (x *X) fatal(format string, a ...any) {
	msg := fmt.Sprintf(format, a...)
	if x.end == "" || x.end == EndPruned {
		x.end = EndError
		x.endMsg = msg
	}
}

//go:norace
func park(x *X, t *Thread, kind int, obj any) {
	t.opKind = kind
	t.opObj = obj
	raceDisable()
	t.status = stParked
	<-t.wake
	raceEnable()
	if x.killed {
		t.status = stDone
		runtime.Goexit()
	}
	t.status = stRunning
	loopCount = 0
}

//go:norace
func checkBaton(x *X, t *Thread, what string) {
	if x.running != t {
		x.fatal("thread %d (%s) reached scheduling point %q without the baton (an un-instrumented blocking operation woke it)", t.ID, t.Name, what)
		t.status = stDone
		runtime.Goexit()
	}
}

// Before is called in front of a native channel operation (obj is the channel).
//
//go:norace
func Before(obj any) {
	x, t := self()
	if t == nil || x.killed {
		return
	}
	checkBaton(x, t, "chan")
	park(x, t, OpChan, obj)
	t.status = stInOp
}

// BeforeSleep is Before for time.Sleep and similar timed native blocking.
//
//go:norace
func BeforeSleep() {
	x, t := self()
	if t == nil || x.killed {
		return
	}
	checkBaton(x, t, "sleep")
	park(x, t, OpSleep, nil)
	t.status = stInOp
}

// After is called behind every native operation that may have blocked.
//
//go:norace
func After() {
	x, t := self()
	if t == nil {
		return
	}
	if x.killed {
		t.status = stDone
		runtime.Goexit()
	}
	if t.status == stInOp {
		t.status = stRunning
		return
	}
	if t.status != stNative {
		x.fatal("thread %d After() in status %d", t.ID, t.status)
		return
	}
	// we were blocked natively and lost the baton; wait to be rescheduled
	raceDisable()
	select {
	case x.ctl <- struct{}{}:
	default:
	}
	raceEnable()
	park(x, t, OpResume, nil)
}

// Point is a generic scheduling point for cooperative primitives.
//
//go:norace
func PointOp(kind int, obj any) bool {
	x, t := self()
	if t == nil || x.killed {
		return false
	}
	checkBaton(x, t, opNames[kind])
	park(x, t, kind, obj)
	return true
}

// Yield is a harness-declared scheduling point.
//
//go:norace
func Yield(label string) {
	PointOp(OpYield, label)
}

// Spawn is called by the parent before a go statement.
//
//go:norace
func Spawn() *Thread {
	x := cur
	if x == nil || x.killed {
		return nil
	}
	if x.nthreads >= MaxThreads {
		x.fatal("too many threads")
		return nil
	}
	t := &Thread{ID: x.nthreads, wake: make(chan struct{}, 1), status: stStarting, selIdx: -1}
	x.threads[x.nthreads] = t
	x.nthreads++
	return t
}

// Start is the first statement of a managed goroutine.
//
//go:norace
func Start(t *Thread) {
	if t == nil {
		return
	}
	x := cur
	t.goid = goid()
	park(x, t, OpStart, nil)
}

// Exit is deferred in every managed goroutine.
//
//go:norace
func Exit() {
	p := recover() // Exit is the deferred function itself: a panic of the goroutine's body ends here
	x, t := self()
	if t == nil {
		if p != nil {
			panic(p)
		}
		return
	}
	if p != nil {
		if t.Name != "" || x == nil || x.killed {
			// a harness thread (they recover what they expect), or an execution already abandoned
			if t.Name != "" && !x.killed {
				panic(p)
			}
		} else if x.end == "" || x.end == EndPruned {
			x.end = EndPanic
			x.endMsg = fmt.Sprintf("a goroutine of the code under test panicked and nothing recovered it: %v", p)
		}
	}
	t.status = stDone
	t.goid = 0
}

// Go starts fn as a managed thread (harness helper).
//
//go:norace
func Go(name string, fn func()) {
	t := Spawn()
	if t == nil {
		go fn()
		return
	}
	t.Name = name
	go func() {
		Start(t)
		defer Exit()
		fn()
	}()
}

// Loop is inserted at the top of every for body of rewritten files.
//
//go:norace
func Loop() {
	loopCount++
	if loopCount > loopLimit {
		spin()
	} else if loopCount%PollEvery == 0 {
		pollYield()
	}
}

//go:norace
func pollYield() {
	x, t := self()
	if t == nil || x.killed || x.running != t {
		return
	}
	saved := loopCount
	park(x, t, OpPoll, nil)
	loopCount = saved
}

//go:norace
func spin() {
	loopCount = 0
	x, t := self()
	if t == nil {
		// not under the scheduler: flag and stop this goroutine
		spinFlag = true
		runtime.Goexit()
	}
	if x.killed {
		t.status = stDone
		runtime.Goexit()
	}
	if x.end == "" {
		x.end = EndSpin
		x.endMsg = fmt.Sprintf("thread %d (%s) executed more than %d loop iterations without a scheduling point", t.ID, t.Name, loopLimit)
	}
	t.status = stDone
	runtime.Goexit()
}

// SpinGuard runs f on a fresh goroutine with a loop budget and reports whether
// it was stopped for spinning (for sequential, scheduler-free harnesses).
func SpinGuard(limit int64, f func()) (spun bool) {
	done := make(chan struct{})
	old := loopLimit
	loopLimit = limit
	loopCount = 0
	spinFlag = false
	go func() {
		defer close(done)
		f()
	}()
	<-done
	loopLimit = old
	s := spinFlag
	spinFlag = false
	return s
}

// SelectPoint is the scheduling point in front of a rewritten select. It
// reports whether the caller is a managed thread (probing is only safe then).
//
//go:norace
func SelectPoint() bool {
	x, t := self()
	if t == nil || x.killed {
		return false
	}
	checkBaton(x, t, "select")
	park(x, t, OpSelect, nil)
	t.selIdx = -1
	t.status = stInOp
	return true
}

// Probe results.
const (
	NotReady = 0
	Ready    = 1
	Maybe    = 2
)

// ProbeRecv tells, without consuming anything, whether a receive clause is
// ready - possible for buffered channels (len/cap; an empty buffered channel
// can only be received from if it is closed) and for Done()-style channels that
// are never sent on. Everything else is Maybe.
//
//go:norace
func ProbeRecv[T any](active bool, c <-chan T, doneLike bool) int {
	if !active {
		return Maybe
	}
	if c == nil {
		return NotReady
	}
	if cap(c) > 0 || doneLike {
		if len(c) > 0 {
			return Ready
		}
		select {
		case _, ok := <-c:
			if ok {
				if x := cur; x != nil {
					x.fatal("probe consumed a value from a channel assumed to be close-only or empty")
				}
			}
			return Ready
		default:
			return NotReady
		}
	}
	return Maybe
}

//go:norace
func ProbeSend[T any](active bool, c chan<- T) int {
	if !active {
		return Maybe
	}
	if c == nil {
		return NotReady
	}
	if cap(c) > 0 {
		if len(c) < cap(c) {
			return Ready
		}
		return NotReady
	}
	return Maybe
}

// SelectChoose asks the explorer which clause to try first, among the clauses
// that are ready or may be ready.
//
//go:norace
func SelectChoose(active bool, st ...int) int {
	if !active {
		return 0
	}
	x, t := self()
	if t == nil || x.killed {
		return 0
	}
	var cand [16]int
	nc := 0
	for i, s := range st {
		if s != NotReady && nc < len(cand) {
			cand[nc] = i
			nc++
		}
	}
	if nc == 0 {
		return 0
	}
	if nc == 1 {
		return cand[0]
	}
	c := x.choose('c', nc, t.ID, OpSelect, "")
	if !x.draining {
		t.selIdx = x.npoints - 1
	}
	return cand[c]
}

// AfterSelect is called once the select has resolved; fired is the clause
// index (n for default).
//
//go:norace
func AfterSelect(fired int) {
	x, t := self()
	if t == nil {
		return
	}
	After()
	if x.killed {
		return
	}
	if i := t.selIdx; i >= 0 && !x.draining && i < x.npoints {
		x.points[i].Fired = fired
		if i == x.dupIdx {
			for _, f := range x.dupSeen {
				if f == fired {
					x.prune("select alternative resolves to an already explored clause")
					break
				}
			}
		}
	}
	t.selIdx = -1
}

// Choose is an environment choice with n alternatives (cost 0).
//
//go:norace
func Choose(n int, label string) int {
	x := cur
	if x == nil || x.killed || n <= 1 {
		return 0
	}
	_, t := self()
	id := -1
	if t != nil {
		id = t.ID
	}
	return x.choose('e', n, id, OpYield, label)
}

//go:norace
func (x *X) prune(why string) {
	if x.end == "" {
		x.end = EndPruned
		x.endMsg = why
	}
	x.draining = true
	x.stopNow = true
}

// choose consumes the next choice: from the prefix while replaying, 0 after.
//
//go:norace
func (x *X) choose(kind byte, n int, thread int, op int, label string) int {
	if x.draining {
		return 0
	}
	i := x.npoints
	if i >= len(x.points) {
		if x.end == "" {
			x.end = EndCap
			x.endMsg = fmt.Sprintf("more than %d choice points", len(x.points))
		}
		x.draining = true
		return 0
	}
	c := 0
	if i < len(x.prefix) {
		c = x.prefix[i]
		if c < 0 || c >= n {
			x.fatal("replay divergence at point %d: choice %d of %d alternatives (kind %c)", i, c, n, kind)
			x.draining = true
			return 0
		}
	}
	p := &x.points[i]
	p.Kind = kind
	p.N = n
	p.Chosen = c
	p.Pre = false
	p.Adv = false
	p.Fired = -1
	p.Thread = thread
	p.Op = op
	p.Label = label
	x.npoints = i + 1
	return c
}

// ---------------------------------------------------------------------------
// controller

//go:norace
func (x *X) wait() {
	raceDisable()
	synctest.Wait()
	raceEnable()
}

//go:norace
func (x *X) drainCtl() {
	for {
		select {
		case <-x.ctl:
		default:
			return
		}
	}
}

// waitTime blocks the controller so that the bubble's clock can advance to the
// next timer. It returns false if nothing woke a thread before the horizon.
//
//go:norace
func (x *X) waitTime(h time.Duration) bool {
	raceDisable()
	defer raceEnable()
	tm := time.NewTimer(h)
	select {
	case <-x.ctl:
		tm.Stop()
		return true
	case <-tm.C:
		return false
	}
}

//go:norace
func (x *X) loop() {
	var cands [MaxThreads]*Thread
	for {
		x.wait()
		x.drainCtl()
		if r := x.running; r != nil {
			if r.status == stInOp || r.status == stRunning {
				if r.status == stRunning {
					// blocked in an operation the rewriter did not wrap; it will be
					// caught by checkBaton when it wakes up
				}
				r.status = stNative
			}
			x.running = nil
		}
		if x.end == EndError || x.end == EndSpin || x.end == EndPanic || x.stopNow {
			return
		}
		alive, native := 0, 0
		nc := 0
		// a thread parked at a poll yield runs after every other runnable thread
		lastPoll := x.last != nil && x.last.status == stParked && x.last.opKind == OpPoll
		if l := x.last; l != nil && l.status == stParked && enabled(l) && !lastPoll {
			cands[nc] = l
			nc++
		}
		var polls [MaxThreads]*Thread
		np := 0
		for ii := 0; ii < x.nthreads; ii++ {
			i := ii
			if x.opts.Policy == 1 {
				i = x.nthreads - 1 - ii
			}
			t := x.threads[i]
			if t.status == stDone {
				continue
			}
			alive++
			if t.status == stNative {
				native++
			}
			if t.status == stStarting {
				x.fatal("thread %d still starting at quiescence", t.ID)
				return
			}
			if t.status == stParked && t != x.last && enabled(t) {
				if t.opKind == OpPoll {
					polls[np] = t
					np++
					continue
				}
				cands[nc] = t
				nc++
			}
		}
		// fairness: a polling thread is not scheduled while a thread that is not polling can run (it
		// has yielded; a schedule that keeps choosing it starves the others and proves nothing)
		onlyPolls := nc == 0
		if onlyPolls {
			for i := 0; i < np; i++ {
				cands[nc] = polls[i]
				nc++
			}
			if lastPoll {
				cands[nc] = x.last
				nc++
			}
		}
		if alive == 0 {
			if x.end == "" {
				x.end = EndComplete
			}
			return
		}
		if !x.Deadline.IsZero() && !time.Now().Before(x.Deadline) {
			if x.end == "" || x.end == EndPruned {
				x.end = EndTimeout
				x.endMsg = "fake-time deadline passed with live threads"
			}
			return
		}
		x.steps++
		if x.steps > 40*len(x.points) {
			if x.end == "" {
				x.end = EndCap
				x.endMsg = "step cap"
			}
			return
		}
		if nc > 0 && onlyPolls && native > 0 && x.opts.PollClock {
			// only polling threads are runnable: time passes while they poll. The clock may move by a
			// quantum that doubles with every consecutive such wait (1ms .. 1s): a timer that would end
			// the polling is reached, a computation that merely takes long costs little fake time.
			if x.pollQuantum == 0 {
				x.pollQuantum = time.Millisecond
			} else if x.pollQuantum < time.Second {
				x.pollQuantum *= 2
			}
			if x.waitTime(x.pollQuantum) {
				continue
			}
		}
		if !onlyPolls {
			x.pollQuantum = 0
		}
		if nc == 0 {
			h := x.opts.Horizon
			if !x.Deadline.IsZero() {
				if d := x.Deadline.Sub(time.Now()); d < h {
					h = d
				}
			}
			if !x.waitTime(h) {
				if !x.Deadline.IsZero() && !time.Now().Before(x.Deadline) {
					if x.end == "" || x.end == EndPruned {
						x.end = EndTimeout
						x.endMsg = "fake-time deadline passed with live threads"
					}
				} else if x.end == "" {
					x.end = EndDeadlock
					x.endMsg = "live threads, none enabled, no timer pending"
				}
				return
			}
			continue
		}
		lastEnabled := x.last != nil && cands[0] == x.last
		n := nc
		adv := x.opts.Advance && native > 0 && !x.draining
		if adv {
			n++
		}
		c := 0
		if n > 1 {
			c = x.choose('s', n, -1, 0, "")
			if !x.draining {
				p := &x.points[x.npoints-1]
				p.Pre = lastEnabled || x.opts.DelayBound
				p.Adv = adv
			}
		}
		if adv && c == n-1 {
			// ADVANCE: let fake time move to the next timer although threads are runnable
			// (a stall of all runnable threads; if no timer fires within AdvanceMax the
			// stall simply lasts AdvanceMax - a legal behaviour of a descheduled process)
			x.preempts++
			x.waitTime(x.opts.AdvanceMax)
			continue
		}
		t := cands[c]
		if (lastEnabled || x.opts.DelayBound) && c != 0 {
			x.preempts++
		}
		if !x.draining && n > 1 {
			p := &x.points[x.npoints-1]
			p.Thread = t.ID
			p.Op = t.opKind
		}
		x.running = t
		x.last = t
		raceDisable()
		t.wake <- struct{}{}
		raceEnable()
	}
}

// Enabler is implemented by cooperative primitives (vsync) so that the
// controller can tell whether a parked thread's pending operation can proceed.
type Enabler interface{ VsEnabled(kind int) bool }

//go:norace
func enabled(t *Thread) bool {
	if e, ok := t.opObj.(Enabler); ok {
		return e.VsEnabled(t.opKind)
	}
	return true
}

// kill releases every parked thread in kill mode, one at a time.
//
//go:norace
func (x *X) kill() (leaked int) {
	x.killed = true
	for round := 0; round < 4; round++ {
		for i := 0; i < x.nthreads; i++ {
			t := x.threads[i]
			if t.status == stParked {
				raceDisable()
				select {
				case t.wake <- struct{}{}:
				default:
				}
				raceEnable()
				x.wait()
			}
		}
	}
	for i := 0; i < x.nthreads; i++ {
		if t := x.threads[i]; t.status != stDone {
			leaked++
			LeakKinds[fmt.Sprintf("%s/st%d/%s", t.Name, t.status, opNames[t.opKind])]++
		}
	}
	return
}

// LeakKinds: what the threads counted in LeakedTotal were doing (name/status/last operation).
var LeakKinds = map[string]int64{}

// ---------------------------------------------------------------------------
// explorer

// Scenario builds the system under test inside the bubble, starts managed
// threads with Go and returns the oracle, which is evaluated (still inside the
// bubble) after the execution ended.
type Scenario func(x *X) (oracle func(end string, msg string) error)

type Result struct {
	End      string
	Msg      string
	Err      error // oracle verdict
	Choices  []int
	Points   []Point
	Preempts int
	Leaked   int
	Log      []string
}

type Explorer struct {
	T        *testing.T
	Opts     Opts
	Scenario Scenario
	RealStop time.Time // real-time budget; zero = none

	Execs      int
	Pruned     int
	Nodes      int // distinct choice-tree nodes visited
	Steps      int // scheduling transitions executed (incl. replayed prefixes)
	MaxDepth   int
	Leaked     int
	Ends       map[string]int
	CapHit     string
	BoundDone  int // largest bound completed (-1 none)
	Violation  *Result
	HarnessErr bool
	OnExec     func(r *Result) // called for every counted execution
	StopOnViol bool
	Beat       *int64 // optional progress counter (incremented per execution, atomically by the caller's convention)
	pointBuf   []Point
	curBound   int
}

func NewExplorer(t *testing.T, o Opts, s Scenario) *Explorer {
	o.defaults()
	return &Explorer{T: t, Opts: o, Scenario: s, Ends: map[string]int{}, BoundDone: -1, StopOnViol: true}
}

// RunOne executes one choice sequence (prefix, then default choices).
func (e *Explorer) RunOne(prefix []int, dupIdx int, dupSeen []int) *Result {
	if e.Beat != nil {
		atomic.AddInt64(e.Beat, 1)
	}
	if e.pointBuf == nil {
		e.pointBuf = make([]Point, e.Opts.MaxPoints)
	}
	x := &X{T: e.T, prefix: prefix, points: e.pointBuf, opts: &e.Opts, dupIdx: dupIdx, dupSeen: dupSeen}
	res := &Result{}
	func() {
		defer func() {
			if r := recover(); r != nil {
				s := fmt.Sprint(r)
				if len(s) >= 8 && s[:8] == "deadlock" {
					// synctest: goroutines of an aborted execution stay blocked for ever
					return
				}
				panic(r)
			}
		}()
		synctest.Test(e.T, func(t *testing.T) {
			x.ctl = make(chan struct{}, 4*MaxThreads) // must be a bubble channel
			x.T0 = time.Now()
			loopCount = 0
			loopLimit = e.Opts.SpinLimit
			cur = x
			oracle := e.Scenario(x)
			x.loop()
			end, msg := x.end, x.endMsg
			if oracle != nil && end != EndPruned && end != EndError {
				res.Err = oracle(end, msg)
			}
			if end != EndComplete && x.onAbort != nil {
				x.onAbort()
				x.wait()
			}
			res.Leaked = x.kill()
			cur = nil
			loopLimit = 1 << 62
		})
	}()
	cur = nil
	res.End, res.Msg = x.end, x.endMsg
	res.Points = x.points[:x.npoints]
	res.Choices = make([]int, x.npoints)
	for i := range res.Points {
		res.Choices[i] = res.Points[i].Chosen
	}
	res.Preempts = x.preempts
	res.Log = x.Log
	e.Steps += x.steps
	e.Leaked += res.Leaked
	LeakedTotal += int64(res.Leaked)
	return res
}

// OnAbort registers a teardown the harness wants to run when an execution does
// not complete (cancel contexts so that leaked goroutines can exit).
func (x *X) OnAbort(f func()) { x.onAbort = f }

func (x *X) Logf(format string, a ...any) {
	x.Log = append(x.Log, fmt.Sprintf(format, a...))
}

// Explore runs the DFS for bounds 0..Opts.Bound. It returns false if a cap or
// the real-time budget stopped it early.
// BoundDoneCounts counts finished explorations by the largest deviation bound they completed (-1: none).
var BoundDoneCounts = map[int]int64{}

func (e *Explorer) Explore() (complete bool) {
	defer func() { BoundDoneCounts[e.BoundDone]++ }()
	for b := 0; b <= e.Opts.Bound; b++ {
		e.curBound = b
		if _, ok := e.explore(nil, -1, nil, 0, b); !ok {
			return false
		}
		if e.Violation != nil && e.StopOnViol {
			return true
		}
		e.BoundDone = b
	}
	return true
}

// ResourceStop, when set, is asked before every execution whether exploration must stop for lack
// of a resource (the workers set it to their memory guard); a non-empty answer is reported as a cap.
var ResourceStop func() string

// LeakedTotal counts the threads that could not be ended when their execution was over (they stay
// blocked in their bubble for the life of the worker, with everything they reference).
var LeakedTotal int64

func (e *Explorer) over() string {
	if !e.RealStop.IsZero() && time.Now().After(e.RealStop) {
		return "real-time budget"
	}
	if ResourceStop != nil {
		return ResourceStop()
	}
	return ""
}

// explore runs prefix and recurses into every alternative after it whose
// deviation cost fits the bound. spent is the number of deviations in prefix.
// Executions are *counted* at the bound level equal to their deviation count
// (lower ones were counted at earlier levels and are only re-walked).
// It returns the clause fired at dupIdx (or -1) and false if exploration must stop.
func (e *Explorer) explore(prefix []int, dupIdx int, dupSeen []int, spent int, bound int) (int, bool) {
	if why := e.over(); why != "" {
		e.CapHit = why
		return -1, false
	}
	r := e.RunOne(prefix, dupIdx, dupSeen)
	if r.End == EndError {
		r.Err = fmt.Errorf("HARNESS ERROR: %s", r.Msg)
		e.Violation = r
		e.HarnessErr = true
		return -1, false
	}
	if r.End == EndPruned {
		e.Pruned++
		return -1, true
	}
	fired := -1
	if dupIdx >= 0 && dupIdx < len(r.Points) {
		fired = r.Points[dupIdx].Fired
	}
	if spent == bound {
		e.Execs++
		e.Ends[r.End]++
		e.Nodes += len(r.Points) - len(prefix) + 1
		if len(r.Points) > e.MaxDepth {
			e.MaxDepth = len(r.Points)
		}
		if r.End == EndCap {
			e.CapHit = r.Msg
		}
		if e.OnExec != nil {
			e.OnExec(r)
		}
		if r.Err != nil && e.Violation == nil {
			e.Violation = r
			if e.StopOnViol {
				return fired, true
			}
		}
	}
	pts := make([]Point, len(r.Points))
	copy(pts, r.Points)
	for i := len(prefix); i < len(pts); i++ {
		p := pts[i]
		var seen []int
		if p.Kind == 'c' {
			seen = []int{p.Fired}
		}
		for alt := 1; alt < p.N; alt++ {
			c := spent
			if p.Kind == 's' && (p.Pre || (p.Adv && alt == p.N-1)) {
				c++
			}
			if c > bound {
				continue
			}
			np := make([]int, i+1)
			for j := 0; j < i; j++ {
				np[j] = pts[j].Chosen
			}
			np[i] = alt
			di, ds := -1, []int(nil)
			if p.Kind == 'c' {
				di, ds = i, seen
			}
			f, ok := e.explore(np, di, ds, c, bound)
			if !ok {
				return fired, false
			}
			if e.Violation != nil && e.StopOnViol {
				return fired, true
			}
			if p.Kind == 'c' && f >= 0 {
				seen = append(seen, f)
			}
		}
	}
	return fired, true
}
