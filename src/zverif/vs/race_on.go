//go:build race

package vs

import "runtime"

const RaceBuild = true

//go:norace
func raceDisable() { runtime.RaceDisable() }

//go:norace
func raceEnable() { runtime.RaceEnable() }
