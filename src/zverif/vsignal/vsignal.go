// Package vsignal replaces "os/signal" in rewritten pandora files: signals are
// delivered by the harness at a scheduling point of its choice.
package vsignal

import "os"

var chans []chan<- os.Signal

func Notify(c chan<- os.Signal, sig ...os.Signal) { chans = append(chans, c) }
func Stop(c chan<- os.Signal)                      {}
func Reset()                                        { chans = nil }

// Deliver hands sig to every registered channel without blocking, like os/signal.
func Deliver(sig os.Signal) int {
	n := 0
	for _, c := range chans {
		select {
		case c <- sig:
			n++
		default:
		}
	}
	return n
}
