package h_race

// Instrumented by vrewrite: runs a real engine.Engine.

import (
	"context"
	"fmt"

	"github.com/yandex/pandora/core/engine"
)

type EngRes struct {
	Err      error
	Returned bool
	Panic    string
	Done     chan struct{} // closed by the engine goroutine when the fields above are final
}

func StartEngine(ctx context.Context, cancel func(), eng *engine.Engine, res *EngRes) {
	go func() {
		defer close(res.Done)
		defer func() {
			if r := recover(); r != nil {
				res.Panic = fmt.Sprint(r)
			}
		}()
		res.Err = eng.Run(ctx)
		res.Returned = true
		eng.Wait()
		cancel()
	}()
}
