package h_prov

// C13 tiers (b) scenario descriptions and (c) configuration values: a valid
// base with every single mutation of a catalogue applied at every applicable
// path, plus every line-boundary truncation of the text.

import (
	"context"
	"fmt"
	"os"
	"path/filepath"
	"sort"
	"strings"
	"testing"
	"time"

	"github.com/spf13/afero"
	"github.com/yandex/pandora/zverif/hutil"
	"github.com/yandex/pandora/zverif/vs"
	"gopkg.in/yaml.v2"
)

const baseHTTPYAML = `variable_sources:
  - name: users
    type: file/csv
    file: /users.csv
    fields: [user_id, name]
    ignore_first_line: true
    delimiter: ','
  - name: filter
    type: file/json
    file: /filter.json
  - name: vars
    type: variables
    variables:
      b: s
requests:
  - name: r1
    method: POST
    uri: /auth
    headers:
      Content-Type: application/json
    tag: auth
    body: '{"u": {{.request.r1.preprocessor.user_id}}}'
    preprocessor:
      mapping:
        user_id: source.users[next].user_id
    postprocessors:
      - type: var/header
        mapping:
          ct: Content-Type|upper
      - type: var/jsonpath
        mapping:
          token: $.auth_key
      - type: var/xpath
        mapping:
          title: //title
      - type: assert/response
        headers:
          Content-Type: json
        body: [key]
        status_code: 200
        size:
          val: 4
          op: '>'
    templater:
      type: html
  - name: r2
    method: GET
    uri: /list
    tag: list
scenarios:
  - name: s1
    weight: 2
    min_waiting_time: 10
    requests: [r1(1), sleep(10), r2(2)]
  - name: s2
    requests: [r2]
`

const baseGRPCYAML = `variable_sources:
  - name: vars
    type: variables
    variables:
      b: s
calls:
  - name: c1
    tag: t1
    call: pkg.Svc.M
    metadata:
      k: v
    payload: '{"a": "{{.request.c1.preprocessor.x}}"}'
    preprocessors:
      - type: prepare
        mapping:
          x: source.vars.b
    postprocessors:
      - type: assert/response
        payload: [tok]
        status_code: 200
  - name: c2
    call: pkg.Svc.N
    payload: '{}'
scenarios:
  - name: s1
    weight: 3
    min_waiting_time: 5
    requests: [c1(1), sleep(10), c2(2)]
  - name: s2
    requests: [c2]
`

const baseHTTPHCL = `variable_source "vars" "variables" {
  variables = {
    b = "s"
  }
}
request "r1" {
  method = "POST"
  uri    = "/auth"
  headers = {
    Content-Type = "application/json"
  }
  tag  = "auth"
  body = "x"
  preprocessor {
    mapping = {
      v = "source.vars.b"
    }
  }
  postprocessor "var/jsonpath" {
    mapping = {
      token = "$.auth_key"
    }
  }
  templater {
    type = "text"
  }
}
request "r2" {
  method  = "GET"
  uri     = "/list"
  headers = {}
}
scenario "s1" {
  weight           = 2
  min_waiting_time = 10
  requests = [
    "r1(1)",
    "sleep(10)",
    "r2(2)",
  ]
}
scenario "s2" {
  requests = ["r2"]
}
`

func toStringMap(v any) any {
	switch x := v.(type) {
	case map[interface{}]interface{}:
		m := map[string]any{}
		for k, e := range x {
			m[fmt.Sprint(k)] = toStringMap(e)
		}
		return m
	case []interface{}:
		l := make([]any, len(x))
		for i, e := range x {
			l[i] = toStringMap(e)
		}
		return l
	}
	return v
}

type path []any // string keys and int indexes

func (p path) String() string {
	var sb strings.Builder
	for _, e := range p {
		fmt.Fprintf(&sb, "/%v", e)
	}
	return sb.String()
}

// walk visits every node with its path.
func walk(v any, p path, fn func(p path, v any)) {
	fn(p, v)
	switch x := v.(type) {
	case map[string]any:
		ks := make([]string, 0, len(x))
		for k := range x {
			ks = append(ks, k)
		}
		sort.Strings(ks)
		for _, k := range ks {
			walk(x[k], append(append(path{}, p...), k), fn)
		}
	case []any:
		for i, e := range x {
			walk(e, append(append(path{}, p...), i), fn)
		}
	}
}

// mutate returns a deep copy of root with the node at p replaced (del: removed).
func mutate(root any, p path, repl any, del bool) any {
	if len(p) == 0 {
		return repl
	}
	switch x := root.(type) {
	case map[string]any:
		m := map[string]any{}
		for k, e := range x {
			if k == p[0] {
				if len(p) == 1 && del {
					continue
				}
				m[k] = mutate(e, p[1:], repl, del)
			} else {
				m[k] = deepCopy(e)
			}
		}
		return m
	case []any:
		var l []any
		for i, e := range x {
			if i == p[0] {
				if len(p) == 1 && del {
					continue
				}
				l = append(l, mutate(e, p[1:], repl, del))
			} else {
				l = append(l, deepCopy(e))
			}
		}
		return l
	}
	return root
}

type scenMut struct {
	name string
	text string
}

func scenarioMutants(kind string, base string) []scenMut {
	var raw map[interface{}]interface{}
	if err := yaml.Unmarshal([]byte(base), &raw); err != nil {
		panic(err)
	}
	root := toStringMap(raw)
	var out []scenMut
	emit := func(name string, doc any) {
		b, err := yaml.Marshal(doc)
		if err != nil {
			return
		}
		out = append(out, scenMut{name, string(b)})
	}
	emit("base", root)
	scalars := []any{map[string]any{"a": 1}, []any{1}, "x", -1, 0, "", nil, true, 1.5, "9223372036854775808"}
	walk(root, nil, func(p path, v any) {
		if len(p) == 0 {
			return
		}
		emit("delete"+p.String(), mutate(root, p, nil, true))
		switch v.(type) {
		case map[string]any, []any:
			for i, r := range []any{"x", 1, nil, []any{}, map[string]any{}} {
				emit(fmt.Sprintf("retype%d%s", i, p), mutate(root, p, r, false))
			}
		default:
			for i, r := range scalars {
				emit(fmt.Sprintf("retype%d%s", i, p), mutate(root, p, r, false))
			}
		}
		if m, ok := v.(map[string]any); ok {
			mm := deepCopy(m).(map[string]any)
			mm["zz_unknown"] = 1
			emit("unknownkey"+p.String(), mutate(root, p, mm, false))
		}
	})
	// request lists
	first := "r1"
	if kind == "grpc" {
		first = "c1"
	}
	for _, l := range [][]any{
		{"sleep(100)", first}, {"sleep(100)"}, {first + "("}, {first + "(x)"}, {first + "(-1)"}, {first + "(1,x)"}, {first + "(1,-5)"}, {"nosuch"}, {first + ")"},
		{""}, {first + "(0)"}, {first + "()"}, {"sleep()"}, {first, "sleep(-5)"}, {first, "sleep(x)"}, {"(1)"}, {first + "(1)(2)"}, {first + "(99999999999999999999)"}, {},
		{first + "(1000)"},
	} {
		emit(fmt.Sprintf("requests=%v", l), mutate(root, path{"scenarios", 0, "requests"}, l, false))
	}
	for _, w := range []any{-1, 0, -4, 9223372036854775807, "x", 1.5} {
		emit(fmt.Sprintf("weight=%v", w), mutate(root, path{"scenarios", 0, "weight"}, w, false))
		emit(fmt.Sprintf("weight2=%v", w), mutate(root, path{"scenarios", 1, "weight"}, w, false))
		emit(fmt.Sprintf("minwait=%v", w), mutate(root, path{"scenarios", 0, "min_waiting_time"}, w, false))
	}
	emit("noscenarios", mutate(root, path{"scenarios"}, []any{}, false))
	emit("dupscenario", mutate(root, path{"scenarios", 1, "name"}, "s1", false))
	if kind == "http" {
		for _, t := range []any{"nosuch", "", 1} {
			emit(fmt.Sprintf("templater=%v", t), mutate(root, path{"requests", 0, "templater", "type"}, t, false))
			emit(fmt.Sprintf("postprocessor=%v", t), mutate(root, path{"requests", 0, "postprocessors", 0, "type"}, t, false))
			emit(fmt.Sprintf("source=%v", t), mutate(root, path{"variable_sources", 0, "type"}, t, false))
		}
		for _, x := range []string{"//[", "", "count(//a)", "1+1", "string(//a)"} {
			emit("xpath="+x, mutate(root, path{"requests", 0, "postprocessors", 2, "mapping", "title"}, x, false))
		}
		for _, x := range []string{"$.[", "", "$..", "x"} {
			emit("jsonpath="+x, mutate(root, path{"requests", 0, "postprocessors", 1, "mapping", "token"}, x, false))
		}
		for _, x := range []string{"X|nosuch", "X|substr(a)", "X|substr(1,2,3)", "X|substr(-1)", "X|", "|upper", "X|substr(5,1)", "X|replace(a)", ""} {
			emit("header="+x, mutate(root, path{"requests", 0, "postprocessors", 0, "mapping", "ct"}, x, false))
		}
		for _, x := range []string{"source.users[", "source.users[next", "source.nosuch[0].x", "", "randInt(", "randInt(a,b)", "randString(-1)", "source.users[x].user_id", "source.users[-1].user_id", "source.users[99999999999999999999]", "source..x", "."} {
			emit("mapping="+x, mutate(root, path{"requests", 0, "preprocessor", "mapping", "user_id"}, x, false))
		}
		for _, op := range []string{"", "x", "=>"} {
			emit("sizeop="+op, mutate(root, path{"requests", 0, "postprocessors", 3, "size", "op"}, op, false))
		}
		for _, d := range []any{"", ",,", 1, "\t"} {
			emit(fmt.Sprintf("delimiter=%v", d), mutate(root, path{"variable_sources", 0, "delimiter"}, d, false))
		}
		for _, f := range []string{"/nosuch.csv", "/empty.csv", "/ragged.csv", "/filter.json", ""} {
			emit("csvfile="+f, mutate(root, path{"variable_sources", 0, "file"}, f, false))
		}
		for _, f := range []string{"/nosuch.json", "/empty.json", "/bad.json", "/users.csv", "/scalar.json"} {
			emit("jsonfile="+f, mutate(root, path{"variable_sources", 1, "file"}, f, false))
		}
	}
	// truncations at every line boundary and in the middle of every line
	lines := strings.SplitAfter(base, "\n")
	acc := ""
	for i, ln := range lines {
		if len(ln) > 3 {
			out = append(out, scenMut{fmt.Sprintf("truncate-mid-line-%d", i), acc + ln[:len(ln)/2]})
		}
		acc += ln
		out = append(out, scenMut{fmt.Sprintf("truncate-after-line-%d", i), acc})
	}
	return out
}

func hclMutants() []scenMut {
	var out []scenMut
	out = append(out, scenMut{"base", baseHTTPHCL})
	lines := strings.SplitAfter(baseHTTPHCL, "\n")
	acc := ""
	for i, ln := range lines {
		if len(ln) > 3 {
			out = append(out, scenMut{fmt.Sprintf("truncate-mid-line-%d", i), acc + ln[:len(ln)/2]})
		}
		acc += ln
		out = append(out, scenMut{fmt.Sprintf("truncate-after-line-%d", i), acc})
		// the line dropped
		rest := strings.Join(lines[i+1:], "")
		out = append(out, scenMut{fmt.Sprintf("drop-line-%d", i), acc[:len(acc)-len(ln)] + rest})
	}
	repl := [][2]string{
		{`"r1(1)"`, `"sleep(100)", "r1(1)"`}, {`"r1(1)"`, `"r1("`}, {`"r1(1)"`, `"r1(x)"`}, {`"r1(1)"`, `"r1(-1)"`}, {`"r1(1)"`, `"nosuch"`},
		{`weight           = 2`, `weight           = -1`}, {`weight           = 2`, `weight           = "x"`}, {`weight           = 2`, `weight           = 0`},
		{`type = "text"`, `type = "nosuch"`}, {`"var/jsonpath"`, `"nosuch"`}, {`"variables" {`, `"nosuch" {`}, {`"$.auth_key"`, `"$.["`},
		{`method = "POST"`, `method = 1`}, {`method = "POST"`, `method = local.nosuch`}, {`method = "POST"`, `method = upper(`}, {`min_waiting_time = 10`, `min_waiting_time = -10`},
		{`requests = ["r2"]`, `requests = []`}, {`requests = ["r2"]`, `requests = "r2"`}, {`scenario "s2"`, `scenario "s1"`}, {`request "r2"`, `request "r1"`},
	}
	for _, r := range repl {
		if !strings.Contains(baseHTTPHCL, r[0]) {
			panic("hcl mutation does not apply: " + r[0])
		}
		out = append(out, scenMut{"replace " + r[0] + " -> " + r[1], strings.Replace(baseHTTPHCL, r[0], r[1], 1)})
	}
	return out
}

func setupScenarioFiles() {
	_ = afero.WriteFile(memfs, "/users.csv", []byte("user_id,name\n1,a\n2,b\n"), 0o644)
	_ = afero.WriteFile(memfs, "/empty.csv", []byte(""), 0o644)
	_ = afero.WriteFile(memfs, "/ragged.csv", []byte("user_id,name\n1\n2,b,c\n\"x\n"), 0o644)
	_ = afero.WriteFile(memfs, "/filter.json", []byte(`{"a":[1,2]}`), 0o644)
	_ = afero.WriteFile(memfs, "/empty.json", []byte(""), 0o644)
	_ = afero.WriteFile(memfs, "/bad.json", []byte(`{"a":[1,`), 0o644)
	_ = afero.WriteFile(memfs, "/scalar.json", []byte(`1`), 0o644)
}

type c13sRun struct {
	cell C13Cell
	drv  *Drv
	cerr error
}

func (r *c13sRun) scenario(x *vs.X) func(end, msg string) error {
	c := r.cell
	file := "/sc.yaml"
	typ := "http/scenario"
	switch c.Format {
	case "grpc-yaml":
		typ = "grpc/scenario"
	case "http-hcl":
		file = "/sc.hcl"
	}
	_ = afero.WriteFile(memfs, file, []byte(c.Text), 0o644)
	p, err := newProvider(map[string]any{"type": typ, "file": file, "limit": 3})
	r.cerr, r.drv = err, nil
	if err != nil {
		return func(end, msg string) error {
			if strings.Contains(err.Error(), "PANIC in provider construction") {
				return fmt.Errorf("PANIC: %v", err)
			}
			return nil
		}
	}
	ctx, cancel := context.WithCancel(context.Background())
	x.OnAbort(cancel)
	x.Deadline = time.Now().Add(time.Hour)
	d := &Drv{P: p, Consumers: 1, Release: true, Extract: nameField}
	r.drv = d
	vs.Go("driver", func() { d.Start(ctx, cancel) })
	return func(end, msg string) error {
		defer cancel()
		if d.RunPanic != "" {
			return fmt.Errorf("PANIC: provider Run panicked: %s", d.RunPanic)
		}
		if end == vs.EndCap {
			return nil
		}
		if end == vs.EndSpin {
			return fmt.Errorf("SPIN: %s", msg)
		}
		if end != vs.EndComplete {
			return fmt.Errorf("HANG: execution ended with %s (%s); delivered %d, Run returned=%v err=%v", end, msg, len(d.Items), d.RunDone, d.RunErr)
		}
		return nil
	}
}

// ---- tier (c): configuration values

type confMut struct {
	name string
	conf map[string]any
}

// propsPath is a real file: the property resolver reads the operating system's file system. It holds
// proper lines, an empty line, a line without '=' and a line with an empty key.
var propsPath string

func ensureProps() {
	if propsPath != "" {
		return
	}
	wd, _ := os.Getwd()
	propsPath = filepath.Join(wd, fmt.Sprintf("zv_c13_%d.properties", os.Getpid()))
	_ = os.WriteFile(propsPath, []byte("k=/ammo\nn=2\n\nbroken\nb=true\n=nokey\n"), 0o644)
}

func configMutants() []confMut {
	ensureProps()
	out := configMutants0()
	for i := range out {
		out[i].conf = substProps(out[i].conf).(map[string]any)
	}
	return out
}

// the mutant names keep the short spelling /props, the configurations carry the real path
func substProps(v any) any {
	switch x := v.(type) {
	case string:
		return strings.ReplaceAll(x, "/props", propsPath)
	case map[string]any:
		m := map[string]any{}
		for k, e := range x {
			m[k] = substProps(e)
		}
		return m
	case []any:
		l := make([]any, len(x))
		for i, e := range x {
			l[i] = substProps(e)
		}
		return l
	}
	return v
}

func configMutants0() []confMut {
	var out []confMut
	place := []string{"${property:/props}", "${property:}", "${property:#}", "${property:/props#}", "${property:/nosuch#k}", "${property:/props#nosuch}", "${env:}", "${env:ZZ_UNSET_VAR}",
		"${:x}", "${}", "${", "${nosuch:x}", "${property:/props#k", "$${property:/props}", "${property:/props#k}${property:/props}", "${PROPERTY:/props}", "${ env: ZZ }",
		"${property:/props#k}", "${property:/props#broken}", "${property:/props# k}", "${property:/props#n}", "${property:/props#=nokey}", "${property: /props#k}"}
	for _, pl := range place {
		out = append(out, confMut{"file=" + pl, map[string]any{"type": "uri", "file": pl}})
		out = append(out, confMut{"limit=" + pl, map[string]any{"type": "uri", "file": "/ammo", "limit": pl}})
		out = append(out, confMut{"preload=" + pl, map[string]any{"type": "uri", "file": "/ammo", "preload": pl}})
		out = append(out, confMut{"headers=" + pl, map[string]any{"type": "uri", "file": "/ammo", "headers": []any{pl}}})
		out = append(out, confMut{"uris=" + pl, map[string]any{"type": "uri", "uris": []any{pl}}})
		out = append(out, confMut{"type=" + pl, map[string]any{"type": pl, "file": "/ammo"}})
	}
	for _, h := range []string{"[", "[]", "[:]", "[A]", "[: b]", "A: b", "[A: b", "", "[A:b]]", "[\n: x]"} {
		out = append(out, confMut{"headers=" + h, map[string]any{"type": "uri", "file": "/ammo", "headers": []any{h}}})
		out = append(out, confMut{"raw-headers=" + h, map[string]any{"type": "raw", "file": "/ammo", "headers": []any{h}}})
	}
	for _, v := range []any{-1, "x", 1.5, []any{1}, map[string]any{"a": 1}, "99999999999999999999", true} {
		out = append(out, confMut{fmt.Sprintf("limit=%v", v), map[string]any{"type": "uri", "file": "/ammo", "limit": v}})
		out = append(out, confMut{fmt.Sprintf("passes=%v", v), map[string]any{"type": "http/json", "file": "/ammo", "passes": v}})
		out = append(out, confMut{fmt.Sprintf("maxammosize=%v", v), map[string]any{"type": "http/json", "file": "/ammo", "maxammosize": v}})
		out = append(out, confMut{fmt.Sprintf("grpc-maxammosize=%v", v), map[string]any{"type": "grpc/json", "file": "/ammo", "maxammosize": v}})
		out = append(out, confMut{fmt.Sprintf("chosencases=%v", v), map[string]any{"type": "uri", "file": "/ammo", "chosencases": v}})
		out = append(out, confMut{fmt.Sprintf("uris=%v", v), map[string]any{"type": "uri", "uris": v}})
		out = append(out, confMut{fmt.Sprintf("file=%v", v), map[string]any{"type": "uri", "file": v}})
		out = append(out, confMut{fmt.Sprintf("json-queue=%v", v), map[string]any{"type": "json", "source": map[string]any{"type": "file", "path": "/ammo"}, "ammo-queue-size": v}})
		out = append(out, confMut{fmt.Sprintf("json-source=%v", v), map[string]any{"type": "json", "source": v}})
	}
	for _, typ := range []string{"uri", "uripost", "raw", "http/json"} {
		for _, pre := range []bool{false, true} {
			// a filter that matches nothing in a well-formed file is an error ("no ammo"), not a crash
			out = append(out, confMut{fmt.Sprintf("chosencases-nomatch-%s-preload=%v", typ, pre), map[string]any{"type": typ, "file": "/ammo." + strings.ReplaceAll(typ, "/", ""), "preload": pre, "passes": 1, "chosencases": []any{"nomatch"}}})
		}
	}
	out = append(out, confMut{"uris+file", map[string]any{"type": "uri", "file": "/ammo", "uris": []any{"/a"}}})
	out = append(out, confMut{"raw+uris", map[string]any{"type": "raw", "uris": []any{"/a"}}})
	out = append(out, confMut{"nofile", map[string]any{"type": "uri"}})
	out = append(out, confMut{"nosuchfile", map[string]any{"type": "uri", "file": "/nosuch"}})
	out = append(out, confMut{"bad-uris", map[string]any{"type": "uri", "uris": []any{"%zz", "[A", "http://[::1"}}})
	out = append(out, confMut{"middleware-nosuch", map[string]any{"type": "uri", "file": "/ammo", "middlewares": []any{map[string]any{"type": "nosuch"}}}})
	out = append(out, confMut{"middleware-date-bad", map[string]any{"type": "uri", "file": "/ammo", "middlewares": []any{map[string]any{"type": "header/date", "location": "No/Such"}}}})
	return out
}

type c13cRun struct {
	m    confMut
	drv  *Drv
	cerr error
}

func (r *c13cRun) scenario(x *vs.X) func(end, msg string) error {
	_ = afero.WriteFile(memfs, "/ammo", []byte("/a t\n/b\n"), 0o644)
	_ = afero.WriteFile(memfs, "/ammo.uri", []byte("/a t\n/b\n"), 0o644)
	_ = afero.WriteFile(memfs, "/ammo.uripost", []byte("1 /a t\nx\n0 /b\n"), 0o644)
	_ = afero.WriteFile(memfs, "/ammo.raw", []byte("19 t\nGET / HTTP/1.1\r\n\r\n\n"), 0o644)
	_ = afero.WriteFile(memfs, "/ammo.httpjson", []byte(`{"tag":"t","uri":"/a","method":"GET","host":"h"}`+"\n"), 0o644)
	_ = afero.WriteFile(memfs, "/props", []byte("k=/ammo\nn=2\nb=true\n"), 0o644)
	p, err := newProvider(r.m.conf)
	r.cerr, r.drv = err, nil
	if err != nil || p == nil {
		return func(end, msg string) error {
			if err != nil && strings.Contains(err.Error(), "PANIC in provider construction") {
				return fmt.Errorf("PANIC: %v", err)
			}
			return nil
		}
	}
	ctx, cancel := context.WithCancel(context.Background())
	x.OnAbort(cancel)
	x.Deadline = time.Now().Add(time.Hour)
	d := &Drv{P: p, Consumers: 1, Release: true, Extract: genericExtract, StopAfter: 5}
	r.drv = d
	vs.Go("driver", func() { d.Start(ctx, cancel) })
	return func(end, msg string) error {
		defer cancel()
		if d.RunPanic != "" {
			return fmt.Errorf("PANIC: provider Run panicked: %s", d.RunPanic)
		}
		if end == vs.EndCap {
			return nil
		}
		if end == vs.EndSpin {
			return fmt.Errorf("SPIN: %s", msg)
		}
		if end != vs.EndComplete {
			return fmt.Errorf("HANG: execution ended with %s (%s); delivered %d", end, msg, len(d.Items))
		}
		return nil
	}
}

func runC13Scenario(t *testing.T, spec *hutil.Spec, out *hutil.Out) {
	setupScenarioFiles()
	rn := newRunner(t, out)
	var cells []C13Cell
	for _, m := range scenarioMutants("http", baseHTTPYAML) {
		cells = append(cells, C13Cell{Tier: "scenario", Format: "http-yaml", Name_: m.name, Text: m.text})
	}
	for _, m := range scenarioMutants("grpc", baseGRPCYAML) {
		cells = append(cells, C13Cell{Tier: "scenario", Format: "grpc-yaml", Name_: m.name, Text: m.text})
	}
	for _, m := range hclMutants() {
		cells = append(cells, C13Cell{Tier: "scenario", Format: "http-hcl", Name_: m.name, Text: m.text})
	}
	accepted := 0
	for ci, c := range cells {
		if !spec.Mine(ci) || (spec.Only != "" && !strings.Contains(c.Name(), spec.Only)) {
			continue
		}
		if out.OverBudget() {
			return
		}
		out.Progress(c.Name())
		r := &c13sRun{cell: c}
		v, _ := rn.explore(0, r.scenario)
		out.Cells++
		if rn.e.HarnessErr {
			out.HarnessErr = c.Name() + ": " + v.Err.Error()
			return
		}
		if c.Name_ == "base" && (r.cerr != nil || r.drv == nil || len(r.drv.Items) != 3 || r.drv.RunErr != nil) {
			out.HarnessErr = fmt.Sprintf("base scenario %s is not accepted: %v", c.Format, r.cerr)
			return
		}
		if r.cerr == nil {
			accepted++
			out.Extra["scenario_mutants_accepted"]++
		} else {
			out.Extra["scenario_mutants_rejected"]++
		}
		out.Outcome("scenario", c.Name()+fmt.Sprint(r.cerr != nil))
		if v != nil {
			out.Violate("C13|scenario|"+c.Format+"|"+classify(v.Err)+"|"+classifyC13(c, v.Err)+"|"+mutClass(c.Name_), c.Name()+"\n"+v.Err.Error()+"\ntext:\n"+c.Text,
				map[string]any{"mode": "C13", "cell": c})
		}
		if ci%701 == 0 {
			out.Sample(map[string]any{"cell": c.Name(), "rejected": r.cerr != nil})
		}
	}
	for mi, m := range configMutants() {
		if !spec.Mine(mi) || (spec.Only != "" && !strings.Contains("config|"+m.name, spec.Only)) {
			continue
		}
		out.Progress("config|" + m.name)
		r := &c13cRun{m: m}
		v, _ := rn.explore(0, r.scenario)
		out.Cells++
		if rn.e.HarnessErr {
			out.HarnessErr = m.name + ": " + v.Err.Error()
			return
		}
		out.Outcome("config", m.name+fmt.Sprint(r.cerr != nil))
		if v != nil {
			c := C13Cell{Tier: "config", Format: "ammo-config", Name_: m.name}
			out.Violate("C13|config|"+classify(v.Err)+"|"+classifyC13(c, v.Err)+"|"+mutClass(m.name), "config "+m.name+"\n"+v.Err.Error(),
				map[string]any{"mode": "C13", "cell": c})
		}
	}
}

func mutClass(name string) string {
	if i := strings.IndexAny(name, "=/-0123456789 "); i > 0 {
		return name[:i]
	}
	return name
}

func replayC13Scenario(t *testing.T, out *hutil.Out, c C13Cell, rp replayT) {
	setupScenarioFiles()
	rn := newRunner(t, out)
	if c.Tier == "config" {
		for _, m := range configMutants() {
			if m.name == c.Name_ {
				r := &c13cRun{m: m}
				v, _ := rn.explore(0, r.scenario)
				fmt.Printf("config %s: construction error: %v\n", m.name, r.cerr)
				if v != nil {
					out.Violate("C13|replay", v.Err.Error(), rp.Raw)
				}
			}
		}
		return
	}
	r := &c13sRun{cell: c}
	v, _ := rn.explore(0, r.scenario)
	fmt.Printf("cell %s\ntext:\n%s\nconstruction error: %v\n", c.Name(), c.Text, r.cerr)
	if v != nil {
		out.Violate("C13|replay", v.Err.Error(), rp.Raw)
	}
}
