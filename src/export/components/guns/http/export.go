package phttp

// Overlay-only export for the verification harnesses (not part of the repository): the wrapper
// HTTP2ClientConstructor puts around its client.
func ZvPanicOnHTTP1(c Client) Client {
	return &panicOnHTTP1Client{Client: c}
}
