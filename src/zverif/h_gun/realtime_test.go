package h_gun

// Two cells that need real time on real sockets (worker 0 only; generous margins, so that a loaded
// machine cannot turn them into false alarms):
//   - C09: an instance that pauses 1.3 s between two requests still uses one connection (keep-alive
//     connections stay open for idle-conn-timeout, 90 s by default);
//   - C19: a target that takes the request and never answers costs the instance
//     response-header-timeout, after which the request is reported as failed and the next one is sent.

import (
	"bufio"
	"fmt"
	"net"
	"net/http"
	"strings"
	"time"

	phttp "github.com/yandex/pandora/components/guns/http"
	httpammo "github.com/yandex/pandora/components/providers/http/ammo"
	"github.com/yandex/pandora/zverif/hutil"
)

func newAmmo(uri string) phttp.Ammo {
	req, _ := http.NewRequest("GET", "http://h.example"+uri, nil)
	return httpammo.NewGunAmmo(req, "t", 1)
}

func runIdlePause(out *hutil.Out) {
	out.Cells++
	out.Evals++
	srv, err := newRecServer(false)
	if err != nil {
		out.Cap("idle-pause cell not run: %v", err)
		return
	}
	defer srv.Close()
	addr := srv.ln.Addr().String()
	gconf := phttp.DefaultHTTPGunConfig()
	gconf.Target, gconf.TargetResolved = addr, addr
	g := phttp.NewHTTP1Gun(gconf, nil)
	a := &recAgg{}
	if err := g.Bind(a, gunDeps(0)); err != nil {
		out.Cap("idle-pause cell not run: %v", err)
		return
	}
	defer g.Close()
	g.Shoot(newAmmo("/one"))
	time.Sleep(1300 * time.Millisecond)
	g.Shoot(newAmmo("/two"))
	srv.mu.Lock()
	conns, reqs := srv.conns, len(srv.reqs)
	srv.mu.Unlock()
	if reqs != 2 || len(a.samples) != 2 {
		out.Cap("idle-pause cell not decided: %d requests arrived, %d samples", reqs, len(a.samples))
		return
	}
	if conns != 1 {
		out.Violate("C09|uri|CONNS|idle-pause", fmt.Sprintf("one instance, two requests 1.3 s apart, keep-alive on (idle-conn-timeout at its default): %d connections", conns), map[string]any{"tier": "realtime"})
	}
}

// stallServer reads requests and never answers.
func stallServer() (net.Listener, error) {
	ln, err := net.Listen("tcp", "127.0.0.1:0")
	if err != nil {
		return nil, err
	}
	go func() {
		for {
			c, err := ln.Accept()
			if err != nil {
				return
			}
			go func(c net.Conn) {
				br := bufio.NewReader(c)
				for {
					if _, err := http.ReadRequest(br); err != nil {
						c.Close()
						return
					}
				}
			}(c)
		}
	}()
	return ln, nil
}

func runStall(out *hutil.Out) {
	out.Cells++
	out.Evals++
	ln, err := stallServer()
	if err != nil {
		out.Cap("stalled-target cell not run: %v", err)
		return
	}
	defer ln.Close()
	addr := ln.Addr().String()
	gconf := phttp.DefaultHTTPGunConfig()
	gconf.Target, gconf.TargetResolved = addr, addr
	gconf.Client.Transport.ResponseHeaderTimeout = 300 * time.Millisecond
	g := phttp.NewHTTP1Gun(gconf, nil)
	a := &recAgg{}
	if err := g.Bind(a, gunDeps(0)); err != nil {
		out.Cap("stalled-target cell not run: %v", err)
		return
	}
	done := make(chan struct{})
	go func() {
		defer close(done)
		g.Shoot(newAmmo("/stall"))
		g.Shoot(newAmmo("/stall2"))
	}()
	select {
	case <-done:
	case <-time.After(20 * time.Second):
		out.Violate("C19|http|STALLED|response-header-timeout", "target takes the request and never answers, response-header-timeout is 300ms: the instance is still inside Shoot after 20 s (no sample, no next ammo)", map[string]any{"tier": "realtime"})
		return
	}
	if len(a.samples) != 2 {
		out.Violate("C19|http|SAMPLES|response-header-timeout", fmt.Sprintf("two requests at a stalled target: %d samples", len(a.samples)), map[string]any{"tier": "realtime"})
		return
	}
	for i, s := range a.samples {
		if s.Err() == nil || !strings.Contains(strings.ToLower(s.Err().Error()), "timeout") {
			out.Violate("C19|http|SAMPLE|response-header-timeout", fmt.Sprintf("request %d at a stalled target: sample carries err=%v (a timeout is expected)", i+1, s.Err()), map[string]any{"tier": "realtime"})
			return
		}
	}
}
