package h_race

// C20: what the gRPC guns put on the channel equals the ammo entry / scenario
// call. The guns run over a recording grpcdynamic.Channel under the vs
// scheduler on the fake clock (exact deadlines); the method table is the one
// of the example service (checked against real reflection by a socket tier).

import (
	"context"
	"encoding/json"
	"fmt"
	"net"
	"sort"
	"strings"
	"sync/atomic"
	"time"

	"github.com/golang/protobuf/proto"
	"github.com/jhump/protoreflect/dynamic"
	"github.com/jhump/protoreflect/dynamic/grpcdynamic"
	"github.com/jhump/protoreflect/grpcreflect"
	"github.com/spf13/afero"
	grpcgun "github.com/yandex/pandora/components/guns/grpc"
	grpcscenario "github.com/yandex/pandora/components/guns/grpc/scenario"
	grpcammo "github.com/yandex/pandora/components/providers/grpc"
	"github.com/yandex/pandora/core"
	"github.com/yandex/pandora/core/aggregator/netsample"
	"github.com/yandex/pandora/core/config"
	"github.com/yandex/pandora/core/warmup"
	"github.com/yandex/pandora/examples/grpc/server"
	"github.com/yandex/pandora/zverif/hutil"
	"github.com/yandex/pandora/zverif/vs"
	"google.golang.org/grpc"
	"google.golang.org/grpc/codes"
	"google.golang.org/grpc/metadata"
	"google.golang.org/grpc/reflection"
	"google.golang.org/grpc/status"
	"google.golang.org/protobuf/encoding/protojson"
	protov2 "google.golang.org/protobuf/proto"
	"os"
	"github.com/yandex/pandora/lib/answlog"
)

type gcall struct {
	Method   string
	JSON     string
	Msg      *dynamic.Message
	MD       metadata.MD
	Deadline time.Duration // remaining at call time
	At       time.Duration
}

type recChannel struct {
	t0     time.Time
	calls  *[]gcall
	answer func(n int, method string) error
}

func (c recChannel) Invoke(ctx context.Context, method string, args any, reply any, opts ...grpc.CallOption) error {
	g := gcall{Method: method, At: time.Since(c.t0)}
	if dm, ok := args.(*dynamic.Message); ok {
		g.Msg = dm
		b, _ := dm.MarshalJSON()
		g.JSON = string(b)
	}
	g.MD, _ = metadata.FromOutgoingContext(ctx)
	if dl, ok := ctx.Deadline(); ok {
		g.Deadline = time.Until(dl)
	} else {
		g.Deadline = -1
	}
	*c.calls = append(*c.calls, g)
	if c.answer != nil {
		return c.answer(len(*c.calls), method)
	}
	return nil
}

func (c recChannel) NewStream(ctx context.Context, desc *grpc.StreamDesc, method string, opts ...grpc.CallOption) (grpc.ClientStream, error) {
	return nil, fmt.Errorf("streams are not scripted")
}

type gsample struct {
	Tag   string
	Proto int
}

type gAgg struct{ s *[]gsample }

func (a gAgg) Run(ctx context.Context, _ core.AggregatorDeps) error { return nil }
func (a gAgg) Report(s core.Sample) {
	if ns, ok := s.(*netsample.Sample); ok {
		*a.s = append(*a.s, gsample{Tag: ns.Tags(), Proto: ns.ProtoCode()})
	}
}

// Entry is one grpc/json ammo entry.
type Entry struct {
	Tag      string            `json:"tag"`
	Call     string            `json:"call"`
	Metadata map[string]string `json:"metadata,omitempty"`
	Payload  map[string]any    `json:"payload"`
	Bad      string            `json:"bad,omitempty"` // "", method, type, extra
}

type C20Cell struct {
	Mode      string  `json:"mode"` // entries | scenario | codes
	Entries   []Entry `json:"entries,omitempty"`
	TimeoutMs int     `json:"timeout_ms"`
	Instances int     `json:"instances"`
	Shots     int     `json:"shots"`
	Bound     int     `json:"bound"`
	Codes     []int   `json:"codes,omitempty"`
	Passes    int     `json:"passes,omitempty"`
	AnswLog   string  `json:"answlog,omitempty"` // answer log filter (all | warning | error), "" = off
}

func (c C20Cell) Name() string {
	var es []string
	for _, e := range c.Entries {
		b, _ := json.Marshal(e.Payload)
		es = append(es, fmt.Sprintf("%s%s md=%d %s", strings.TrimPrefix(e.Call, "target.TargetService."), b, len(e.Metadata), e.Bad))
	}
	return fmt.Sprintf("c20|%s|%s|timeout=%d|inst=%d|shots=%d|codes=%v", c.Mode, strings.Join(es, ";"), c.TimeoutMs, c.Instances, c.Shots, c.Codes) + map[bool]string{true: "|answlog=" + c.AnswLog}[c.AnswLog != ""]
}

var reqTypes = map[string]func() protov2.Message{
	"Hello": func() protov2.Message { return &server.HelloRequest{} },
	"Auth":  func() protov2.Message { return &server.AuthRequest{} },
	"List":  func() protov2.Message { return &server.ListRequest{} },
	"Order": func() protov2.Message { return &server.OrderRequest{} },
	"Stats": func() protov2.Message { return &server.StatsRequest{} },
	"Reset": func() protov2.Message { return &server.ResetRequest{} },
}

type c20run struct {
	cell    C20Cell
	calls   []gcall
	samples []gsample
	res     DriveRes
	shotsBy map[int][]string
	defs    []string
}

const defaultGRPCTimeout = 15 * time.Second

func (r *c20run) scenario(x *vs.X) func(end, msg string) error {
	c := r.cell
	r.calls, r.samples, r.res, r.shotsBy = nil, nil, DriveRes{}, map[int][]string{}
	var conf map[string]any
	switch c.Mode {
	case "scodes":
		conf = map[string]any{"type": "grpc/scenario", "file": "/gsc19.yaml", "limit": c.Shots}
	case "scenario":
		conf = map[string]any{"type": "grpc/scenario", "file": "/gsc20.yaml", "limit": c.Shots}
	case "sfail":
		conf = map[string]any{"type": "grpc/scenario", "file": "/gsc20f.yaml", "limit": c.Shots}
	case "snames":
		conf = map[string]any{"type": "grpc/scenario", "file": "/gsc20n.yaml", "limit": c.Shots}
	case "sfail-method":
		conf = map[string]any{"type": "grpc/scenario", "file": "/gsc20u.yaml", "limit": c.Shots}
	case "sfail-type":
		conf = map[string]any{"type": "grpc/scenario", "file": "/gsc20t.yaml", "limit": c.Shots}
	default:
		var sb strings.Builder
		for _, e := range c.Entries {
			b, _ := json.Marshal(map[string]any{"tag": e.Tag, "call": e.Call, "metadata": e.Metadata, "payload": e.Payload})
			sb.Write(b)
			sb.WriteString("\n")
		}
		_ = afero.WriteFile(memfs, "/ammo20.grpc", []byte(sb.String()), 0o644)
		n := len(c.Entries)
		if c.Mode == "codes" {
			n = len(c.Codes)
		}
		if c.Passes > 1 {
			n *= c.Passes
		}
		conf = map[string]any{"type": "grpc/json", "file": "/ammo20.grpc", "limit": n}
	}
	var h struct{ Ammo core.Provider }
	if err := config.DecodeAndValidate(map[string]any{"ammo": deepCopy(conf)}, &h); err != nil {
		return func(end, msg string) error { return fmt.Errorf("HARNESS: provider: %v", err) }
	}
	t0 := time.Now()
	ch := recChannel{t0: t0, calls: &r.calls}
	if c.Mode == "codes" || c.Mode == "scodes" {
		ch.answer = func(n int, method string) error {
			code := c.Codes[(n-1)%len(c.Codes)]
			switch {
			case code == 0:
				return nil
			case code == -1:
				return fmt.Errorf("plain transport error")
			case code == -2:
				return context.DeadlineExceeded
			}
			return status.Error(codes.Code(code), "scripted")
		}
	}
	timeout := time.Duration(c.TimeoutMs) * time.Millisecond
	var guns []gunLike
	for i := 0; i < c.Instances; i++ {
		deps := core.GunDeps{Ctx: context.Background(), Log: nop, PoolID: "p", InstanceID: i}
		if c.Mode == "scenario" || c.Mode == "scodes" || c.Mode == "snames" || strings.HasPrefix(c.Mode, "sfail") {
			g := grpcscenario.NewGun(grpcscenario.GunConfig{Target: "t", Timeout: timeout, AnswLog: grpcscenario.AnswLogConfig{Enabled: c.AnswLog != "", Path: os.DevNull, Filter: c.AnswLog}})
			grpcscenario.ZvBind(g, gAgg{&r.samples}, deps, grpcdynamic.NewStub(ch), services)
			guns = append(guns, g)
		} else {
			g := &grpcgun.Gun{Conf: grpcgun.GunConfig{Target: "t", Timeout: timeout, AnswLog: grpcgun.AnswLogConfig{Enabled: c.AnswLog != "", Path: os.DevNull, Filter: c.AnswLog}}, AnswLog: answlog.Init(os.DevNull, c.AnswLog != ""), Stub: grpcdynamic.NewStub(ch), Services: services, Aggr: gAgg{&r.samples}, GunDeps: deps}
			guns = append(guns, g)
		}
	}
	ctx, cancel := context.WithCancel(context.Background())
	x.OnAbort(cancel)
	x.Deadline = time.Now().Add(time.Hour)
	var onShot func(inst int, a core.Ammo)
	r.defs = nil
	if c.Mode == "scenario" {
		// the shared scenario definition (calls, payload templates, metadata templates) as every instance sees it
		onShot = func(inst int, a core.Ammo) {
			if sc, ok := a.(*grpcscenario.Scenario); ok {
				var sb strings.Builder
				for _, cl := range sc.Calls {
					ks := make([]string, 0, len(cl.Metadata))
					for k := range cl.Metadata {
						ks = append(ks, k)
					}
					sort.Strings(ks)
					fmt.Fprintf(&sb, "%s %s %s payload=%s", cl.Name, cl.Tag, cl.Call, cl.Payload)
					for _, k := range ks {
						fmt.Fprintf(&sb, " %s=%q", k, cl.Metadata[k])
					}
					sb.WriteString(";")
				}
				r.defs = append(r.defs, sb.String())
			}
		}
	}
	vs.Go("driver", func() { DriveGuns(ctx, cancel, h.Ammo, guns, &r.res, onShot) })
	return func(end, msg string) error {
		defer cancel()
		if len(r.res.Panics) > 0 {
			return fmt.Errorf("PANIC: %s", r.res.Panics[0])
		}
		if end == vs.EndCap {
			return nil
		}
		if end != vs.EndComplete {
			return fmt.Errorf("HANG: execution ended with %s (%s)", end, msg)
		}
		if r.res.RunErr != nil {
			return fmt.Errorf("RUNERR: %v", r.res.RunErr)
		}
		switch c.Mode {
		case "entries":
			return r.checkEntries()
		case "scenario":
			return r.checkScenario()
		case "sfail", "sfail-method", "sfail-type":
			return r.checkFail()
		case "snames":
			return r.checkNames()
		case "codes":
			return r.checkCodes()
		case "scodes":
			return r.checkScenarioCodes()
		}
		return nil
	}
}

const c19grpcScenarioYAML = `calls:
  - name: c1
    tag: hello
    call: target.TargetService.Hello
    metadata: {k: v}
    payload: '{"name": "n"}'
    postprocessors:
      - type: assert/response
        payload: [hello]
      - type: assert/response
        status_code: 200
  - name: c2
    tag: list
    call: target.TargetService.List
    payload: '{"token": "{{.request.c1.postprocessor.hello}}", "user_id": 1}'
    postprocessors:
      - type: assert/response
        payload: [result, item_id]
scenarios:
  - name: s1
    requests: [c1, c2]
`

// checkScenarioCodes: whatever the calls are answered with, every shot is made, every executed
// call gives exactly one sample, and a failing call stops only its own shot.
func (r *c20run) checkScenarioCodes() error {
	c := r.cell
	if r.res.Shots != c.Shots {
		return fmt.Errorf("STOPPED: %d of %d shots made", r.res.Shots, c.Shots)
	}
	if len(r.samples) != len(r.calls) {
		return fmt.Errorf("SAMPLES: %d calls on the channel, %d samples", len(r.calls), len(r.samples))
	}
	hello := 0
	for _, g := range r.calls {
		if g.Method == "/target.TargetService/Hello" {
			hello++
		}
	}
	if hello != c.Shots {
		return fmt.Errorf("STOPPED: %d shots started with their first call, %d expected", hello, c.Shots)
	}
	return nil
}

func (r *c20run) wantTimeout() time.Duration {
	if r.cell.TimeoutMs == 0 {
		return defaultGRPCTimeout
	}
	return time.Duration(r.cell.TimeoutMs) * time.Millisecond
}

func (r *c20run) checkEntries() error {
	c := r.cell
	if c.Passes > 1 {
		var all []Entry
		for p := 0; p < c.Passes; p++ {
			all = append(all, c.Entries...)
		}
		c.Entries = all
		r.cell.Entries = all
		defer func() { r.cell.Entries = all[:len(all)/c.Passes] }()
	}
	if len(r.samples) != len(c.Entries) {
		return fmt.Errorf("SAMPLES: %d samples for %d entries", len(r.samples), len(c.Entries))
	}
	ci := 0
	for i, e := range c.Entries {
		sm := r.samples[i]
		if sm.Tag != e.Tag && !(e.Tag == "" && sm.Tag != "") {
			return fmt.Errorf("TAG: entry %d sample tag %q, ammo tag %q", i, sm.Tag, e.Tag)
		}
		short := strings.TrimPrefix(e.Call, "target.TargetService.")
		if e.Bad != "" {
			if sm.Proto == 200 {
				return fmt.Errorf("BAD-ENTRY: entry %d (%s) is reported as a successful sample", i, e.Bad)
			}
			if ci < len(r.calls) && r.calls[ci].Method == "/target.TargetService/"+short && e.Bad != "method" {
				// the bad entry must not have been sent: the next recorded call must belong to a later entry
				if !r.laterEntryMatches(i, r.calls[ci]) {
					return fmt.Errorf("BAD-ENTRY: entry %d (%s payload) was sent to the server as %s", i, e.Bad, r.calls[ci].JSON)
				}
			}
			continue
		}
		if ci >= len(r.calls) {
			return fmt.Errorf("CALLS: entry %d (%s) was not sent", i, e.Call)
		}
		g := r.calls[ci]
		ci++
		if g.Method != "/target.TargetService/"+short {
			return fmt.Errorf("METHOD: entry %d names %s, the channel saw %s", i, e.Call, g.Method)
		}
		want := reqTypes[short]()
		pj, _ := json.Marshal(e.Payload)
		if err := protojson.Unmarshal(pj, want); err != nil {
			return fmt.Errorf("HARNESS: payload %s does not fit %T: %v", pj, want, err)
		}
		got := reqTypes[short]()
		if err := g.Msg.ConvertTo(proto.MessageV1(got)); err != nil {
			return fmt.Errorf("MESSAGE: entry %d: sent message is not a %T: %v", i, got, err)
		}
		if !protov2.Equal(got, want) {
			return fmt.Errorf("MESSAGE: entry %d: the channel saw %s, the payload %s interpreted against the input type is %v", i, g.JSON, pj, want)
		}
		for k, v := range e.Metadata {
			if vs := g.MD.Get(k); len(vs) != 1 || vs[0] != v {
				return fmt.Errorf("METADATA: entry %d: metadata %q sent as %v, ammo says %q", i, k, vs, v)
			}
		}
		if len(g.MD) != len(e.Metadata) {
			return fmt.Errorf("METADATA: entry %d: %d metadata keys sent (%v), ammo has %d", i, len(g.MD), g.MD, len(e.Metadata))
		}
		if g.Deadline != r.wantTimeout() {
			return fmt.Errorf("TIMEOUT: entry %d: call deadline is %v from now, configured timeout is %v", i, g.Deadline, r.wantTimeout())
		}
		if sm.Proto != 200 {
			return fmt.Errorf("SAMPLE: entry %d answered OK but reported as %d", i, sm.Proto)
		}
	}
	if ci != len(r.calls) {
		return fmt.Errorf("CALLS: %d calls on the channel, %d good entries", len(r.calls), ci)
	}
	return nil
}

func (r *c20run) laterEntryMatches(i int, g gcall) bool {
	for _, e := range r.cell.Entries[i+1:] {
		if e.Bad != "" {
			continue
		}
		short := strings.TrimPrefix(e.Call, "target.TargetService.")
		if g.Method == "/target.TargetService/"+short {
			return true
		}
	}
	return false
}

const c20scenarioYAML = `variable_sources:
  - name: users
    type: file/csv
    file: /users.csv
    fields: [user_id, name]
    ignore_first_line: true
    delimiter: ','
calls:
  - name: c1
    tag: hello
    call: target.TargetService.Hello
    metadata:
      u: '{{.request.c1.preprocessor.u}}'
      fixed: v
    payload: '{"name": "{{.request.c1.preprocessor.u}}"}'
    preprocessors:
      - type: prepare
        mapping:
          u: source.users[next].name
  - name: c2
    tag: order
    call: target.TargetService.Order
    metadata: {who: '{{.request.c1.preprocessor.u}}', fixed: 'w-{{.request.c1.preprocessor.u}}'}
    payload: '{"token": "{{.request.c1.preprocessor.u}}", "user_id": 5, "item_id": 7}'
scenarios:
  - name: s1
    requests: [c1, sleep(300), c2]
`

// c20failYAML: the second call's payload template fails while it is being rendered (an index
// beyond the data source), after part of its text has been produced; the shot stops there.
const c20failYAML = `variable_sources:
  - name: users
    type: file/csv
    file: /users.csv
    fields: [user_id, name]
    ignore_first_line: true
    delimiter: ','
calls:
  - name: c1
    tag: hello
    call: target.TargetService.Hello
    metadata:
      u: '{{.request.c1.preprocessor.u}}'
      fixed: v
    payload: '{"name": "{{.request.c1.preprocessor.u}}"}'
    preprocessors:
      - type: prepare
        mapping:
          u: source.users[next].name
  - name: cbad
    tag: bad
    call: target.TargetService.Hello
    metadata: {part: m}
    payload: '{"name": "partial{{index .source.users 99}}"}'
  - name: c2
    tag: order
    call: target.TargetService.Order
    payload: '{"token": "t", "user_id": 5, "item_id": 7}'
scenarios:
  - name: s1
    requests: [c1, cbad, c2]
`

// the same scenario with a second call that names a method the target does not have / whose payload does
// not fit the method's input type: a failed sample for that call, nothing sent, the first call undisturbed
var c20unknownYAML = strings.Replace(strings.Replace(c20failYAML, "partial{{index .source.users 99}}", "x", 1), "call: target.TargetService.Hello\n    metadata: {part: m}", "call: target.TargetService.Nope\n    metadata: {part: m}", 1)
var c20illTypedYAML = strings.Replace(c20failYAML, `'{"name": "partial{{index .source.users 99}}"}'`, `'{"name": {"nested": 5}}'`, 1)

// c20namesYAML: two scenarios whose names and call names join to the same text (shop + cart_add,
// shop_cart + add) and a metadata key that is called like the other rendered part of a call (payload);
// the metadata templates use the other spellings of an action ({{ .x }}, {{- .x -}}, {{ printf .. }}).
const c20namesYAML = `variable_sources:
  - name: users
    type: file/csv
    file: /users.csv
    fields: [user_id, name]
    ignore_first_line: true
    delimiter: ','
calls:
  - name: cart_add
    tag: t1
    call: target.TargetService.Hello
    metadata:
      who: '{{ printf "%s" "shop" }}'
      payload: 'meta-{{ .request.cart_add.preprocessor.u }}'
    payload: '{"name": "first-{{.request.cart_add.preprocessor.u}}"}'
    preprocessors:
      - type: prepare
        mapping:
          u: source.users[next].name
  - name: add
    tag: t2
    call: target.TargetService.Hello
    metadata:
      who: '{{- "cart" -}}'
      payload: 'other-{{- .request.add.preprocessor.u -}}'
    payload: '{"name": "second-{{.request.add.preprocessor.u}}"}'
    preprocessors:
      - type: prepare
        mapping:
          u: source.users[next].name
scenarios:
  - name: shop
    requests: [cart_add]
  - name: shop_cart
    requests: [add]
`

// checkNames: every call is rendered from its own scenario's and its own call's templates.
func (r *c20run) checkNames() error {
	c := r.cell
	if len(r.calls) != c.Shots {
		return fmt.Errorf("CALLS: %d calls for %d shots of one-call scenarios", len(r.calls), c.Shots)
	}
	cnt := map[string]int{}
	for i, g := range r.calls {
		var m struct{ Name string }
		_ = json.Unmarshal([]byte(g.JSON), &m)
		kind, row, _ := strings.Cut(m.Name, "-")
		who := map[string]string{"first": "shop", "second": "cart"}[kind]
		mp := map[string]string{"first": "meta-", "second": "other-"}[kind] + row
		if who == "" || len(row) != 1 {
			return fmt.Errorf("MESSAGE: call %d sent as %s; the two calls' payloads are {\"name\": \"first-<row>\"} and {\"name\": \"second-<row>\"}", i, g.JSON)
		}
		if ks := mdKeys(g.MD); ks != "payload,who" || g.MD.Get("who")[0] != who || g.MD.Get("payload")[0] != mp {
			return fmt.Errorf("METADATA: call %d (%s) carries metadata %v, its entry defines who=%s payload=%s", i, g.JSON, g.MD, who, mp)
		}
		cnt[kind]++
	}
	if c.Shots%2 == 0 && cnt["first"] != cnt["second"] {
		return fmt.Errorf("MESSAGE: %d shots of two scenarios of equal weight sent %d x cart_add's and %d x add's message", c.Shots, cnt["first"], cnt["second"])
	}
	tags := map[string]int{}
	for _, s := range r.samples {
		tags[s.Tag]++
		if s.Proto != 200 {
			return fmt.Errorf("SAMPLES: an answered call is reported with code %d", s.Proto)
		}
	}
	if len(r.samples) != c.Shots || tags["shop.t1"] != cnt["first"] || tags["shop_cart.t2"] != cnt["second"] {
		return fmt.Errorf("SAMPLES: %d shots reported as %v", c.Shots, tags)
	}
	return nil
}

func mdKeys(md metadata.MD) string {
	ks := make([]string, 0, len(md))
	for k := range md {
		ks = append(ks, k)
	}
	sort.Strings(ks)
	return strings.Join(ks, ",")
}

// checkFail: every call that goes out is c1 exactly as written; the entry whose template fails sends
// nothing and leaves nothing behind for the next shot.
func (r *c20run) checkFail() error {
	c := r.cell
	if len(r.calls) != c.Shots {
		return fmt.Errorf("CALLS: %d calls for %d shots of a scenario whose second call cannot be rendered (one call per shot is sent)", len(r.calls), c.Shots)
	}
	var names []string
	for i, g := range r.calls {
		if g.Method != "/target.TargetService/Hello" {
			return fmt.Errorf("METHOD: call %d is %s", i, g.Method)
		}
		var m struct{ Name string }
		if err := json.Unmarshal([]byte(g.JSON), &m); err != nil || len(m.Name) != 1 {
			return fmt.Errorf("MESSAGE: call %d sent as %s, the entry's payload is {\"name\": <row>}", i, g.JSON)
		}
		if ks := mdKeys(g.MD); ks != "fixed,u" || g.MD.Get("u")[0] != m.Name || g.MD.Get("fixed")[0] != "v" {
			return fmt.Errorf("METADATA: call %d carries metadata %v, the entry defines u=%s fixed=v", i, g.MD, m.Name)
		}
		names = append(names, m.Name)
	}
	sort.Strings(names)
	want := make([]string, 0, c.Shots)
	for i := 0; i < c.Shots; i++ {
		want = append(want, []string{"a", "b", "c"}[i%3])
	}
	sort.Strings(want)
	if fmt.Sprint(names) != fmt.Sprint(want) {
		return fmt.Errorf("NEXT: %d shots used rows %v, consecutive rows are %v", c.Shots, names, want)
	}
	// one sample per executed step: the call that went out (200) and the step that failed before its call
	tags := map[string]int{}
	for _, s := range r.samples {
		tags[s.Tag]++
		if s.Tag == "s1.hello" && s.Proto != 200 {
			return fmt.Errorf("SAMPLES: the answered call is reported with code %d", s.Proto)
		}
		if s.Tag == "s1.bad" && s.Proto == 200 {
			return fmt.Errorf("SAMPLES: the step that could not be rendered is reported as a success")
		}
	}
	if len(r.samples) != 2*c.Shots || tags["s1.hello"] != c.Shots || tags["s1.bad"] != c.Shots {
		return fmt.Errorf("SAMPLES: %d shots of [answered call, step failing before its call, step not reached] reported %v; one sample per executed step is %d x s1.hello and %d x s1.bad", c.Shots, r.samples, c.Shots, c.Shots)
	}
	return nil
}

func (r *c20run) checkScenario() error {
	c := r.cell
	for i, d := range r.defs {
		if d != r.defs[0] {
			return fmt.Errorf("ISOLATION: the scenario definition handed to shot %d differs from the one handed to the first shot: an instance altered the shared definition\n first: %s\n now:   %s", i+1, r.defs[0], d)
		}
	}
	if len(r.calls) != 2*c.Shots {
		return fmt.Errorf("CALLS: %d calls for %d shots of a two-call scenario", len(r.calls), c.Shots)
	}
	var names []string
	for i, g := range r.calls {
		if g.Deadline != r.wantTimeout() {
			return fmt.Errorf("TIMEOUT: call %d deadline %v, configured %v", i, g.Deadline, r.wantTimeout())
		}
		switch g.Method {
		case "/target.TargetService/Hello":
			var m struct{ Name string }
			_ = json.Unmarshal([]byte(g.JSON), &m)
			if u := g.MD.Get("u"); len(u) != 1 || u[0] != m.Name {
				return fmt.Errorf("METADATA: Hello call carries metadata u=%v but payload name %q: rendered from another instance's variables", u, m.Name)
			}
			if f := g.MD.Get("fixed"); len(f) != 1 || f[0] != "v" {
				return fmt.Errorf("METADATA: fixed=%v", f)
			}
			if ks := mdKeys(g.MD); ks != "fixed,u" {
				return fmt.Errorf("METADATA: Hello call carries metadata keys [%s], the entry defines [fixed,u]", ks)
			}
			names = append(names, m.Name)
		case "/target.TargetService/Order":
			var m struct {
				Token  string
				UserID string `json:"userId"`
				ItemID string `json:"itemId"`
			}
			_ = json.Unmarshal([]byte(g.JSON), &m)
			if w := g.MD.Get("who"); len(w) != 1 || w[0] != m.Token {
				return fmt.Errorf("METADATA: Order call carries metadata who=%v but payload token %q", w, m.Token)
			}
			// (the key "fixed" is also used by the Hello call, with another value)
			if ks := mdKeys(g.MD); ks != "fixed,who" {
				return fmt.Errorf("METADATA: Order call carries metadata keys [%s], the entry defines [fixed,who]", ks)
			}
			if f := g.MD.Get("fixed"); len(f) != 1 || f[0] != "w-"+m.Token {
				return fmt.Errorf("METADATA: Order call carries fixed=%v, the entry defines w-%s", f, m.Token)
			}
			if m.UserID != "5" || m.ItemID != "7" {
				return fmt.Errorf("MESSAGE: Order payload sent as %s", g.JSON)
			}
		default:
			return fmt.Errorf("METHOD: unexpected %s", g.Method)
		}
	}
	sort.Strings(names)
	want := make([]string, 0, c.Shots)
	rows := []string{"a", "b", "c"}
	for i := 0; i < c.Shots; i++ {
		want = append(want, rows[i%3])
	}
	sort.Strings(want)
	if fmt.Sprint(names) != fmt.Sprint(want) {
		return fmt.Errorf("NEXT: %d shots used rows %v, consecutive rows are %v", c.Shots, names, want)
	}
	return nil
}

func (r *c20run) checkCodes() error {
	c := r.cell
	if r.res.Shots != len(c.Codes) {
		return fmt.Errorf("STOPPED: %d of %d ammo shot", r.res.Shots, len(c.Codes))
	}
	if len(r.samples) != len(c.Codes) {
		return fmt.Errorf("SAMPLES: %d samples for %d calls", len(r.samples), len(c.Codes))
	}
	for i, code := range c.Codes {
		want := 500
		switch {
		case code == 0:
			want = 200
		case code > 0:
			if w, ok := grpcTable[codes.Code(code)]; ok {
				want = w
			}
		}
		if r.samples[i].Proto != want {
			return fmt.Errorf("CODE: call %d answered with status %d, sample code %d, documented mapping %d", i, code, r.samples[i].Proto, want)
		}
	}
	return nil
}

var grpcTable = map[codes.Code]int{
	codes.OK: 200, codes.Canceled: 499, codes.InvalidArgument: 400, codes.DeadlineExceeded: 504, codes.NotFound: 404,
	codes.AlreadyExists: 409, codes.PermissionDenied: 403, codes.ResourceExhausted: 429, codes.FailedPrecondition: 400,
	codes.Aborted: 409, codes.OutOfRange: 400, codes.Unimplemented: 501, codes.Unavailable: 503, codes.Unauthenticated: 401,
}

func c20entries() []Entry {
	var good []Entry
	mds := []map[string]string{nil, {"k": "v"}, {"k": "v", "auth": "Bearer x y", "x-num": "1"}}
	add := func(call string, payloads ...map[string]any) {
		for pi, p := range payloads {
			good = append(good, Entry{Tag: fmt.Sprintf("%s%d", strings.ToLower(call), pi), Call: "target.TargetService." + call, Metadata: mds[pi%len(mds)], Payload: p})
		}
	}
	add("Hello", map[string]any{}, map[string]any{"name": "n"}, map[string]any{"name": "юникод \"q\""}, map[string]any{"name": ""})
	add("Auth", map[string]any{}, map[string]any{"login": "l"}, map[string]any{"pass": "p"}, map[string]any{"login": "l", "pass": "p"})
	add("List", map[string]any{}, map[string]any{"token": "t"}, map[string]any{"user_id": 7}, map[string]any{"token": "t", "user_id": 9007199254740993}, map[string]any{"userId": "12"})
	add("Order", map[string]any{"token": "t", "user_id": 1, "item_id": 2}, map[string]any{"item_id": -5}, map[string]any{"user_id": 0})
	add("Stats", map[string]any{})
	add("Reset", map[string]any{})
	return good
}

func c20cells(thorough bool) []C20Cell {
	good := c20entries()
	bad := []Entry{
		{Tag: "badm", Call: "target.TargetService.Nosuch", Payload: map[string]any{}, Bad: "method"},
		{Tag: "badm2", Call: "Hello", Payload: map[string]any{"name": "n"}, Bad: "method"},
		{Tag: "badt", Call: "target.TargetService.List", Payload: map[string]any{"user_id": "notanumber"}, Bad: "type"},
		{Tag: "badt2", Call: "target.TargetService.Hello", Payload: map[string]any{"name": map[string]any{"a": 1}}, Bad: "type"},
		{Tag: "bade", Call: "target.TargetService.Hello", Payload: map[string]any{"name": "n", "zz_extra": 1}, Bad: "extra"},
	}
	var out []C20Cell
	for _, to := range []int{0, 2000} {
		for _, g := range good {
			out = append(out, C20Cell{Mode: "entries", Entries: []Entry{g}, TimeoutMs: to, Instances: 1})
			// the same file read twice with a deviation: entries of the second pass are decoded into released (pooled) ammo
			out = append(out, C20Cell{Mode: "entries", Entries: []Entry{g, good[(len(out)*7+3)%len(good)]}, TimeoutMs: to, Instances: 1, Bound: 1, Passes: 2})
		}
		// every bad entry between every pair of good entries (thinned by method in quick)
		for gi, g := range good {
			for _, b := range bad {
				for hi, h := range good {
					if !thorough && (gi+hi)%5 != 0 {
						continue
					}
					out = append(out, C20Cell{Mode: "entries", Entries: []Entry{g, b, h}, TimeoutMs: to, Instances: 1, Bound: 1})
				}
			}
		}
	}
	// runs of bad entries: the same bad entry twice (and a different one after it) following a good one
	for gi, g := range good {
		if !thorough && gi%3 != 0 {
			continue
		}
		for bi, b := range bad {
			out = append(out, C20Cell{Mode: "entries", Entries: []Entry{g, b, b, g}, TimeoutMs: 2000, Instances: 1})
			out = append(out, C20Cell{Mode: "entries", Entries: []Entry{g, b, bad[(bi+1)%len(bad)], b}, TimeoutMs: 2000, Instances: 1})
		}
	}
	for _, inst := range []int{1, 2} {
		for _, shots := range []int{1, 2, 3, 4} {
			b := 0
			if inst == 2 {
				b = 2
			}
			out = append(out, C20Cell{Mode: "scenario", TimeoutMs: 2000, Instances: inst, Shots: shots, Bound: b})
		}
	}
	if thorough {
		out = append(out, C20Cell{Mode: "scenario", TimeoutMs: 0, Instances: 3, Shots: 4, Bound: 1})
	}
	for _, shots := range []int{1, 2, 3} {
		if shots != 3 {
			out = append(out, C20Cell{Mode: "snames", TimeoutMs: 2000, Instances: 1, Shots: 2 * shots})
			out = append(out, C20Cell{Mode: "snames", TimeoutMs: 2000, Instances: 2, Shots: 2 * shots, Bound: 1})
		}
		for _, mode := range []string{"sfail", "sfail-method", "sfail-type"} {
			out = append(out, C20Cell{Mode: mode, TimeoutMs: 2000, Instances: 1, Shots: shots})
			if shots > 1 {
				out = append(out, C20Cell{Mode: mode, TimeoutMs: 2000, Instances: 2, Shots: shots, Bound: 1})
			}
		}
	}
	// C19 for gRPC: every status code and failure kind in every position of a 3-call history
	all := []int{0, 1, 2, 3, 4, 5, 6, 7, 8, 9, 10, 11, 12, 13, 14, 15, 16, 17, 99, -1, -2}
	for _, a := range all {
		out = append(out, C20Cell{Mode: "codes", Entries: []Entry{good[1], good[5]}, Instances: 1, Codes: []int{a, 0, a}})
		out = append(out, C20Cell{Mode: "codes", Entries: []Entry{good[1], good[5]}, Instances: 1, Codes: []int{0, a, 0}})
		if thorough {
			for _, b := range all {
				out = append(out, C20Cell{Mode: "codes", Entries: []Entry{good[1], good[5]}, Instances: 1, Codes: []int{a, b, 0}})
			}
		}
		// the gRPC scenario gun with payload and status assertions on answers that carry no message
		for _, flt := range []string{"all", "warning", "error"} {
			// the answer log with every filter: logging an answer (or its absence) must not change the outcome
			out = append(out, C20Cell{Mode: "codes", Entries: []Entry{good[1], good[5]}, Instances: 1, Codes: []int{a, 0, a}, AnswLog: flt})
			out = append(out, C20Cell{Mode: "scodes", Instances: 1, Shots: 3, Codes: []int{0, a, a, 0}, AnswLog: flt})
		}
		out = append(out, C20Cell{Mode: "scodes", Instances: 1, Shots: 3, Codes: []int{a, 0, 0, a}})
		out = append(out, C20Cell{Mode: "scodes", Instances: 1, Shots: 3, Codes: []int{0, a, a, 0}})
	}
	return out
}

// reflectionTier: the method table used above equals what real reflection on the example server gives.
func reflectionTier(out *hutil.Out) {
	ln, err := net.Listen("tcp", "127.0.0.1:0")
	if err != nil {
		out.Cap("reflection tier not run: %v", err)
		return
	}
	srv := grpc.NewServer()
	server.RegisterTargetServiceServer(srv, server.UnimplementedTargetServiceServer{})
	reflection.Register(srv)
	go func() { _ = srv.Serve(ln) }()
	defer srv.Stop()
	conn, err := grpc.Dial(ln.Addr().String(), grpc.WithInsecure())
	if err != nil {
		out.Cap("reflection tier not run: %v", err)
		return
	}
	defer conn.Close()
	rc := grpcreflect.NewClientAuto(context.Background(), conn)
	svc, err := rc.ResolveService("target.TargetService")
	if err != nil {
		out.Cap("reflection tier not run: %v", err)
		return
	}
	got := map[string]string{}
	for _, m := range svc.GetMethods() {
		got[m.GetFullyQualifiedName()] = m.GetInputType().GetFullyQualifiedName()
	}
	for name, m := range services {
		out.Evals++
		if got[name] != m.GetInputType().GetFullyQualifiedName() {
			out.Violate("C20|reflection", fmt.Sprintf("method %s: reflection gives input type %q, the harness table %q", name, got[name], m.GetInputType().GetFullyQualifiedName()), map[string]any{"tier": "reflection"})
		}
	}
	if len(got) != len(services) {
		out.Violate("C20|reflection", fmt.Sprintf("reflection lists %d methods, the harness table %d", len(got), len(services)), map[string]any{"tier": "reflection"})
	}
}

// countingTarget answers Hello and counts the calls that reach it.
type countingTarget struct {
	server.UnimplementedTargetServiceServer
	hello *int64
}

func (c countingTarget) Hello(ctx context.Context, r *server.HelloRequest) (*server.HelloResponse, error) {
	atomic.AddInt64(c.hello, 1)
	return &server.HelloResponse{Hello: "hi " + r.Name}, nil
}

// realGunTier: the real gun over real connections, with the method list taken from a reflection
// endpoint on another port than the target (reflect_port): every call goes to the target, whether each
// instance dials for itself or instances share a pool of 1-2 clients made at warm-up.
func realGunTier(out *hutil.Out) {
	var atTarget, atReflect int64
	listen := func(withReflection bool, n *int64) (*grpc.Server, net.Listener, error) {
		ln, err := net.Listen("tcp", "127.0.0.1:0")
		if err != nil {
			return nil, nil, err
		}
		srv := grpc.NewServer()
		server.RegisterTargetServiceServer(srv, countingTarget{hello: n})
		if withReflection {
			reflection.Register(srv)
		}
		go func() { _ = srv.Serve(ln) }()
		return srv, ln, nil
	}
	tsrv, tln, err := listen(false, &atTarget)
	if err != nil {
		out.Cap("real gun tier not run: %v", err)
		return
	}
	defer tsrv.Stop()
	rsrv, rln, err := listen(true, &atReflect)
	if err != nil {
		out.Cap("real gun tier not run: %v", err)
		return
	}
	defer rsrv.Stop()
	_, rport, _ := net.SplitHostPort(rln.Addr().String())
	var rp int64
	fmt.Sscan(rport, &rp)
	for _, sc := range []struct {
		shared  bool
		clients int
	}{{false, 0}, {true, 1}, {true, 2}} {
		out.Evals++
		out.Cells++
		atomic.StoreInt64(&atTarget, 0)
		atomic.StoreInt64(&atReflect, 0)
		conf := grpcgun.DefaultGunConfig()
		conf.Target = tln.Addr().String()
		conf.ReflectPort = rp
		conf.Timeout = 5 * time.Second
		conf.SharedClient.Enabled = sc.shared
		conf.SharedClient.ClientNumber = sc.clients
		name := fmt.Sprintf("shared=%v clients=%d", sc.shared, sc.clients)
		sharedDeps, err := grpcgun.NewGun(conf).WarmUp(&warmup.Options{Log: nop, Ctx: context.Background()})
		if err != nil {
			out.Cap("real gun tier (%s) not run: warm-up: %v", name, err)
			continue
		}
		var samples []gsample
		const instances, shots = 3, 2
		for i := 0; i < instances; i++ {
			g := grpcgun.NewGun(conf)
			if err := g.Bind(gAgg{&samples}, core.GunDeps{Ctx: context.Background(), Log: nop, PoolID: "p", InstanceID: i, Shared: sharedDeps}); err != nil {
				out.Violate("C20|real-gun|BIND", name+": "+err.Error(), map[string]any{"tier": "real-gun"})
				continue
			}
			for k := 0; k < shots; k++ {
				g.Shoot(&grpcammo.Ammo{Tag: "t", Call: "target.TargetService.Hello", Payload: map[string]any{"name": "n"}})
			}
		}
		at, ar := atomic.LoadInt64(&atTarget), atomic.LoadInt64(&atReflect)
		ok := 0
		for _, s := range samples {
			if s.Proto == 200 {
				ok++
			}
		}
		if at != instances*shots || ar != 0 || ok != instances*shots {
			out.Violate("C20|real-gun|TARGET", fmt.Sprintf("%s: %d calls were shot by %d instances: %d arrived at the target, %d at the reflection endpoint (reflect_port), %d samples with code 200", name, instances*shots, instances, at, ar, ok), map[string]any{"tier": "real-gun"})
		}
	}
}

func runC20(t interface{ Fatal(...any) }, spec *hutil.Spec, out *hutil.Out, e *vs.Explorer) {
	_ = afero.WriteFile(memfs, "/gsc20.yaml", []byte(c20scenarioYAML), 0o644)
	_ = afero.WriteFile(memfs, "/gsc20f.yaml", []byte(c20failYAML), 0o644)
	_ = afero.WriteFile(memfs, "/gsc20u.yaml", []byte(c20unknownYAML), 0o644)
	_ = afero.WriteFile(memfs, "/gsc20n.yaml", []byte(c20namesYAML), 0o644)
	_ = afero.WriteFile(memfs, "/gsc20t.yaml", []byte(c20illTypedYAML), 0o644)
	_ = afero.WriteFile(memfs, "/gsc19.yaml", []byte(c19grpcScenarioYAML), 0o644)
	if spec.Worker == 0 && spec.Replay == nil {
		reflectionTier(out)
		if spec.Property == "C20" {
			realGunTier(out)
		}
	}
	for ci, c := range c20cells(spec.Thorough()) {
		if !spec.Mine(ci) || (spec.Only != "" && !strings.Contains(c.Name(), spec.Only)) {
			continue
		}
		if spec.Property == "C20" && c.Mode == "scodes" {
			continue
		}
		if spec.Property == "C19" && c.Mode != "codes" && c.Mode != "scodes" && !strings.HasPrefix(c.Mode, "sfail") {
			continue
		}
		if spec.Property == "C10" && c.Mode != "scodes" && !strings.HasPrefix(c.Mode, "sfail") && c.Mode != "snames" && c.Mode != "scenario" && c.Mode != "codes" {
			continue // C10: one sample per call / executed step with the code it has when it is reported
		}
		if out.OverBudget() {
			return
		}
		if !out.Begin(c.Name()) {
			continue
		}
		out.Cells++
		r := &c20run{cell: c}
		e.Scenario = r.scenario
		e.Opts.Bound = c.Bound
		e.Violation, e.HarnessErr, e.BoundDone, e.CapHit = nil, false, -1, ""
		ex0, n0, s0 := e.Execs, e.Nodes, e.Steps
		e.OnExec = func(res *vs.Result) { out.Outcome(c.Mode, c.Name()+fmt.Sprint(len(r.calls), r.samples)) }
		complete := e.Explore()
		out.Evals += int64(e.Execs - ex0)
		out.States += int64(e.Nodes - n0)
		out.Transitions += int64(e.Steps - s0)
		if !complete || e.CapHit != "" {
			out.Cap("cell %s: %s", c.Name(), e.CapHit)
		}
		if e.HarnessErr {
			out.HarnessErr = c.Name() + ": " + e.Violation.Err.Error()
			return
		}
		if v := e.Violation; v != nil {
			if strings.HasPrefix(v.Err.Error(), "HARNESS:") {
				out.HarnessErr = c.Name() + ": " + v.Err.Error()
				return
			}
			out.Violate(spec.Property+"|grpc|"+c.Mode+"|"+classify(v.Err), c.Name()+"\n"+v.Err.Error(), map[string]any{"c20": c, "choices": v.Choices})
		}
		if ci%199 == 0 {
			out.Sample(map[string]any{"cell": c.Name()})
		}
	}
}
