module veriftools

go 1.21
