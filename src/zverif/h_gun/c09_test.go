package h_gun

// C09: the request that reaches a recording loopback server equals the ammo
// entry plus the gun/provider configuration. Real provider (plugin registry),
// real HTTP/1 gun, real sockets; the quantifier (entries x formats x option
// lists x ssl x keep-alive) is enumerated exhaustively, there are no timing
// assertions.

import (
	"bufio"
	"bytes"
	"context"
	"crypto/ecdsa"
	"crypto/elliptic"
	"crypto/rand"
	"crypto/tls"
	"crypto/x509"
	"crypto/x509/pkix"
	"fmt"
	"github.com/yandex/pandora/core/aggregator/netsample"
	"io"
	"math/big"
	"net"
	"net/http"
	"net/textproto"
	"sort"
	"strings"
	"sync"
	"time"

	"github.com/spf13/afero"
	grpcimport "github.com/yandex/pandora/components/grpc/import"
	phttp "github.com/yandex/pandora/components/guns/http"
	phttpimport "github.com/yandex/pandora/components/phttp/import"
	"github.com/yandex/pandora/core"
	"github.com/yandex/pandora/core/config"
	coreimport "github.com/yandex/pandora/core/import"
	"github.com/yandex/pandora/zverif/hutil"
	"go.uber.org/zap"
	"go.uber.org/zap/zapcore"
)

var (
	memfs    = hutil.NewStrictFs()
	initOnce sync.Once
)

func initPlugins() {
	initOnce.Do(func() {
		coreimport.Import(memfs)
		phttpimport.Import(memfs)
		grpcimport.Import(memfs)
	})
}

func deepCopy(v any) any {
	switch x := v.(type) {
	case map[string]any:
		m := make(map[string]any, len(x))
		for k, e := range x {
			m[k] = deepCopy(e)
		}
		return m
	case []any:
		l := make([]any, len(x))
		for i, e := range x {
			l[i] = deepCopy(e)
		}
		return l
	}
	return v
}

func newProvider(conf map[string]any) (p core.Provider, err error) {
	defer func() {
		if r := recover(); r != nil {
			err = fmt.Errorf("PANIC in provider construction: %v", r)
		}
	}()
	var h struct{ Ammo core.Provider }
	err = config.DecodeAndValidate(map[string]any{"ammo": deepCopy(conf)}, &h)
	return h.Ammo, err
}

// ---- recording server

type wireReq struct {
	Conn    int
	Method  string
	URI     string
	Proto   string
	Host    string
	Headers map[string]string
	Body    string
	TLS     bool
	Tunnel  string // authority of the CONNECT request that opened the tunnel this request came through ("" = no tunnel)
}

// bufConn: a connection whose first bytes were already read into a bufio.Reader.
type bufConn struct {
	net.Conn
	r *bufio.Reader
}

func (b *bufConn) Read(p []byte) (int, error) { return b.r.Read(p) }

type recServer struct {
	proxy    bool // answers CONNECT by tunnelling to itself (target of the connect gun)
	respSize int
	ln       net.Listener
	tls      bool
	mu       sync.Mutex
	reqs     []wireReq
	conns    int
	wg       sync.WaitGroup
}

var serverCert *tls.Certificate

func selfSigned() tls.Certificate {
	if serverCert != nil {
		return *serverCert
	}
	key, _ := ecdsa.GenerateKey(elliptic.P256(), rand.Reader)
	tpl := &x509.Certificate{SerialNumber: big.NewInt(1), Subject: pkix.Name{CommonName: "zv"}, NotBefore: time.Now().Add(-time.Hour), NotAfter: time.Now().Add(24 * time.Hour),
		KeyUsage: x509.KeyUsageDigitalSignature, ExtKeyUsage: []x509.ExtKeyUsage{x509.ExtKeyUsageServerAuth}, IPAddresses: []net.IP{net.ParseIP("127.0.0.1")}}
	der, _ := x509.CreateCertificate(rand.Reader, tpl, tpl, &key.PublicKey, key)
	c := tls.Certificate{Certificate: [][]byte{der}, PrivateKey: key}
	serverCert = &c
	return c
}

func newRecServer(useTLS bool) (*recServer, error) {
	ln, err := net.Listen("tcp", "127.0.0.1:0")
	if err != nil {
		return nil, err
	}
	s := &recServer{ln: ln, tls: useTLS}
	if useTLS {
		s.ln = tls.NewListener(ln, &tls.Config{Certificates: []tls.Certificate{selfSigned()}, NextProtos: []string{"http/1.1"}})
	}
	s.wg.Add(1)
	go func() {
		defer s.wg.Done()
		for {
			c, err := s.ln.Accept()
			if err != nil {
				return
			}
			s.mu.Lock()
			s.conns++
			id := s.conns
			s.mu.Unlock()
			s.wg.Add(1)
			go s.serve(c, id)
		}
	}()
	return s, nil
}

func (s *recServer) serve(c net.Conn, id int) {
	defer s.wg.Done()
	defer c.Close()
	br := bufio.NewReader(c)
	tunnel := ""
	inTLS := s.tls
	for {
		req, err := http.ReadRequest(br)
		if err != nil {
			return
		}
		if req.Method == "CONNECT" && s.proxy && tunnel == "" {
			// act as the proxy of the connect gun: open a "tunnel" to ourselves; what follows on the connection
			// is the tunnelled traffic, in TLS when the gun's ssl option is on (first byte of a handshake record)
			tunnel = req.RequestURI
			if _, err := c.Write([]byte("HTTP/1.1 200 OK\r\n\r\n")); err != nil {
				return
			}
			if b, err := br.Peek(1); err == nil && b[0] == 0x16 {
				tc := tls.Server(&bufConn{Conn: c, r: br}, &tls.Config{Certificates: []tls.Certificate{selfSigned()}, NextProtos: []string{"http/1.1"}})
				c = tc
				br = bufio.NewReader(tc)
				inTLS = true
			}
			continue
		}
		body, _ := io.ReadAll(req.Body)
		h := map[string]string{}
		for k, vv := range req.Header {
			h[k] = strings.Join(vv, ",")
		}
		s.mu.Lock()
		s.reqs = append(s.reqs, wireReq{Conn: id, Method: req.Method, URI: req.RequestURI, Proto: req.Proto, Host: req.Host, Headers: h, Body: string(body), TLS: inTLS, Tunnel: tunnel})
		s.mu.Unlock()
		s.mu.Lock()
		size := s.respSize
		s.mu.Unlock()
		payload := "ok"
		if size > 2 {
			payload = strings.Repeat("r", size)
		}
		resp := fmt.Sprintf("HTTP/1.1 200 OK\r\nContent-Length: %d\r\nContent-Type: text/plain\r\n\r\n%s", len(payload), payload)
		if req.Close {
			resp = fmt.Sprintf("HTTP/1.1 200 OK\r\nContent-Length: %d\r\nConnection: close\r\n\r\n%s", len(payload), payload)
		}
		if _, err := c.Write([]byte(resp)); err != nil || req.Close {
			return
		}
	}
}

func (s *recServer) Close() {
	s.ln.Close()
}

// shooter is either a BaseGun built directly or the core.Gun the plugin registry hands out for
// gun type "http" (kind "http-registry": target given by name, pre-resolved by the registration).
type shooter struct {
	shoot func(a core.Ammo)
	close func() error
}

type gunSet struct {
	guns []shooter
	aggs []*recAgg
}

var gunSets = map[string]*gunSet{}

// answSink receives what the guns write to their answer log.
type answBuf struct {
	mu sync.Mutex
	n  int
	b  bytes.Buffer
}

func (a *answBuf) Write(p []byte) (int, error) {
	a.mu.Lock()
	defer a.mu.Unlock()
	a.n++
	a.b.Write(p)
	return len(p), nil
}
func (a *answBuf) reset() { a.mu.Lock(); a.n = 0; a.b.Reset(); a.mu.Unlock() }

var answSink answBuf

// getGuns returns the worker's persistent guns for a gun configuration (guns can be bound only once;
// with keep-alive their connections are reused from cell to cell, so a run opens few sockets).
func getGuns(c C09Cell, addr string) (*gunSet, error) {
	key := fmt.Sprintf("%s|%v|%v|%s", c.Gun, c.SSL, c.NoKeep, c.AnswLog)
	if gs, ok := gunSets[key]; ok {
		return gs, nil
	}
	gconf := phttp.DefaultHTTPGunConfig()
	if c.Gun == "connect" {
		gconf = phttp.DefaultConnectGunConfig()
	}
	gconf.Target = addr
	gconf.TargetResolved = addr
	gconf.SSL = c.SSL
	gconf.Client.Transport.DisableKeepAlives = c.NoKeep
	answLog := zap.NewNop()
	if c.AnswLog != "" {
		// as lib/answlog builds it, writing to memory instead of ./answ.log
		gconf.AnswLog.Enabled = true
		gconf.AnswLog.Filter = c.AnswLog
		answLog = zap.New(zapcore.NewCore(zapcore.NewConsoleEncoder(zap.NewDevelopmentEncoderConfig()), zapcore.AddSync(&answSink), zapcore.DebugLevel))
	}
	gs := &gunSet{}
	if c.Gun == "http-registry" {
		_, port, _ := net.SplitHostPort(addr)
		var h struct {
			Gun func() (core.Gun, error) `config:"gun"`
		}
		conf := map[string]any{"gun": map[string]any{"type": "http", "target": "localhost:" + port, "ssl": c.SSL}}
		if err := config.DecodeAndValidate(conf, &h); err != nil {
			return nil, fmt.Errorf("HARNESS: gun config: %v", err)
		}
		for i := 0; i < 2; i++ {
			g, err := h.Gun()
			if err != nil {
				return nil, fmt.Errorf("HARNESS: gun: %v", err)
			}
			a := &recAgg{}
			if err := g.Bind(netsample.WrapAggregator(a), gunDeps(i)); err != nil {
				return nil, fmt.Errorf("HARNESS: bind: %v", err)
			}
			cl := func() error { return nil }
			if c, ok := g.(io.Closer); ok {
				cl = c.Close
			}
			gs.guns = append(gs.guns, shooter{shoot: g.Shoot, close: cl})
			gs.aggs = append(gs.aggs, a)
		}
		gunSets[key] = gs
		return gs, nil
	}
	for i := 0; i < 2; i++ {
		g := phttp.NewHTTP1Gun(gconf, answLog)
		if c.Gun == "connect" {
			g = phttp.NewConnectGun(gconf, answLog)
		}
		a := &recAgg{}
		if err := g.Bind(a, gunDeps(i)); err != nil {
			return nil, fmt.Errorf("HARNESS: bind: %v", err)
		}
		gs.guns = append(gs.guns, shooter{shoot: func(am core.Ammo) { g.Shoot(am.(phttp.Ammo)) }, close: g.Close})
		gs.aggs = append(gs.aggs, a)
	}
	gunSets[key] = gs
	return gs, nil
}

var servers = map[string]*recServer{}

// getServer returns the worker's persistent recording server (one plain, one TLS), reset for a new cell.
func getServer(useTLS, proxy bool) (*recServer, error) {
	skey := fmt.Sprintf("tls=%v proxy=%v", useTLS, proxy)
	if proxy {
		useTLS = false // the proxy is reached in the clear; TLS, if any, is inside the tunnel
	}
	if s, ok := servers[skey]; ok {
		s.mu.Lock()
		s.reqs, s.conns = nil, 0
		s.mu.Unlock()
		return s, nil
	}
	var s *recServer
	var err error
	for i := 0; i < 20; i++ {
		if s, err = newRecServer(useTLS); err == nil {
			s.proxy = proxy
			servers[skey] = s
			return s, nil
		}
		time.Sleep(500 * time.Millisecond)
	}
	return nil, err
}

// ---- cells

type C09Cell struct {
	File      File     `json:"file"`
	Option    []string `json:"option"` // provider 'headers' option
	SSL       bool     `json:"ssl"`
	NoKeep    bool     `json:"no_keepalive"`
	Instances int      `json:"instances"`
	Gun       string   `json:"gun"`                 // http | http-registry | connect
	AnswLog   string   `json:"answlog,omitempty"`   // answlog filter (all | warning | error); "" = answer log off
	RespSize  int      `json:"resp_size,omitempty"` // size of the target's response body (0: 2 bytes)
	Passes    int      `json:"passes,omitempty"`    // 0: one pass
	Preload   bool     `json:"preload,omitempty"`
}

func (c C09Cell) Name() string {
	return fmt.Sprintf("%s|option=%v|ssl=%v|nokeep=%v|instances=%d|gun=%s|resp=%d|passes=%d|preload=%v", c.File.Name(), c.Option, c.SSL, c.NoKeep, c.Instances, c.Gun, c.RespSize, c.Passes, c.Preload) + map[bool]string{true: "|answlog=" + c.AnswLog}[c.AnswLog != ""]
}

var formatType = map[string]string{"uri": "uri", "uripost": "uripost", "raw": "raw", "jsonline": "http/json"}

func parseOpt(o string) (string, string) {
	o = strings.TrimSuffix(strings.TrimPrefix(o, "["), "]")
	k, v, _ := strings.Cut(o, ":")
	return textproto.CanonicalMIMEHeaderKey(strings.TrimSpace(k)), strings.TrimSpace(v)
}

// wantWire: the model of what must arrive.
func wantWire(c C09Cell, targetHost string) []Want {
	ws := model(c.File.Format, c.File.Items)
	for i := range ws {
		h := map[string]string{}
		if ws[i].Headers != "" {
			for _, kv := range strings.Split(strings.TrimSuffix(ws[i].Headers, ";"), ";") {
				k, v, _ := strings.Cut(kv, "=")
				h[k] = v
			}
		}
		for _, o := range c.Option {
			k, v := parseOpt(o)
			if k == "Host" {
				if ws[i].Host == "" {
					ws[i].Host = v
				}
				continue
			}
			if _, ok := h[k]; !ok {
				h[k] = v
			}
		}
		ws[i].Headers = hdrString(h)
	}
	one := ws
	for p := 1; p < c.Passes; p++ {
		ws = append(ws, one...) // every pass sends the file again, unchanged
	}
	return ws
}

func runC09Cell(c C09Cell) (verr error) {
	defer func() {
		if r := recover(); r != nil {
			verr = fmt.Errorf("PANIC: %v", r)
		}
	}()
	srv, err := getServer(c.SSL, c.Gun == "connect")
	if err != nil {
		return fmt.Errorf("HARNESS: listen: %v", err)
	}
	addr := srv.ln.Addr().String()
	srv.mu.Lock()
	srv.respSize = c.RespSize
	srv.mu.Unlock()
	data := render(c.File.Format, c.File.Items, c.File.Layout)
	_ = afero.WriteFile(memfs, "/ammo", data, 0o644)
	conf := map[string]any{"type": formatType[c.File.Format], "file": "/ammo", "passes": 1}
	if c.Passes > 1 {
		conf["passes"] = c.Passes
	}
	if c.Preload {
		conf["preload"] = true
	}
	if len(c.Option) > 0 {
		l := make([]any, len(c.Option))
		for i, o := range c.Option {
			l[i] = o
		}
		conf["headers"] = l
	}
	p, err := newProvider(conf)
	if err != nil {
		return fmt.Errorf("ERROR: provider construction: %v", err)
	}
	ctx, cancel := context.WithCancel(context.Background())
	defer cancel()
	runErr := make(chan error, 1)
	go func() { runErr <- p.Run(ctx, core.ProviderDeps{Log: zap.NewNop()}) }()

	gs, err := getGuns(c, addr)
	if err != nil {
		return err
	}
	guns := gs.guns[:c.Instances]
	aggs := gs.aggs[:c.Instances]
	for _, a := range aggs {
		a.samples = nil
	}
	answSink.reset()
	var wg sync.WaitGroup
	var pmu sync.Mutex
	var panics []string
	for i := range guns {
		wg.Add(1)
		go func(g shooter) {
			defer wg.Done()
			defer func() {
				if r := recover(); r != nil {
					pmu.Lock()
					panics = append(panics, fmt.Sprint(r))
					pmu.Unlock()
				}
			}()
			for {
				a, ok := p.Acquire()
				if !ok {
					return
				}
				g.shoot(a)
				p.Release(a)
			}
		}(guns[i])
	}
	wg.Wait()
	cancel()
	<-runErr
	if c.NoKeep {
		for _, g := range guns {
			_ = g.close()
		}
	}
	if len(panics) > 0 {
		return fmt.Errorf("PANIC: %s", panics[0])
	}
	srv.mu.Lock()
	got := append([]wireReq(nil), srv.reqs...)
	conns := srv.conns
	srv.mu.Unlock()
	host, _, _ := net.SplitHostPort(addr)
	want := wantWire(c, host)
	nSamples := 0
	for _, a := range aggs {
		for _, s := range a.samples {
			nSamples++
			if s.ProtoCode() != 200 {
				if s.Err() != nil && (strings.Contains(s.Err().Error(), "cannot assign requested address") || strings.Contains(s.Err().Error(), "address already in use")) {
					return fmt.Errorf("HARNESS: local ports exhausted: %v", s.Err())
				}
				return fmt.Errorf("SAMPLE: request reported code %d err %v (server answered 200)", s.ProtoCode(), s.Err())
			}
		}
	}
	if len(got) != len(want) || nSamples != len(want) {
		return fmt.Errorf("COUNT: %d requests arrived, %d samples, the file has %d entries", len(got), nSamples, len(want))
	}
	norm := func(r wireReq) Want {
		h := map[string]string{}
		for k, v := range r.Headers {
			switch k {
			case "Content-Length", "Connection":
				continue
			case "User-Agent":
				if strings.HasPrefix(v, "Go-http-client") {
					continue
				}
			case "Accept-Encoding":
				if v == "gzip" {
					continue
				}
			}
			h[k] = v
		}
		return Want{Method: r.Method, URI: r.URI, Body: r.Body, Host: r.Host, Headers: hdrString(h)}
	}
	gotW := make([]Want, len(got))
	for i, r := range got {
		gotW[i] = norm(r)
		if r.TLS != c.SSL {
			return fmt.Errorf("SCHEME: request arrived with tls=%v, ssl option is %v", r.TLS, c.SSL)
		}
		if c.Gun == "connect" && r.Tunnel != addr {
			return fmt.Errorf("TUNNEL: request %d of the connect gun arrived through a tunnel to %q, the target is %q", i, r.Tunnel, addr)
		}
		if c.Gun != "connect" && r.Tunnel != "" {
			return fmt.Errorf("TUNNEL: request %d arrived through a CONNECT tunnel to %q although the gun is %s", i, r.Tunnel, c.Gun)
		}
	}
	wantW := make([]Want, len(want))
	for i, w := range want {
		w.Tag = ""
		if w.Host == "" {
			w.Host = "<target>"
		}
		wantW[i] = w
	}
	_, port, _ := net.SplitHostPort(addr)
	for i := range gotW {
		if c.Gun == "http-registry" {
			// the configured target is the name: that, not the address it resolves to, is the default Host
			if gotW[i].Host == "localhost:"+port || gotW[i].Host == "localhost" {
				gotW[i].Host = "<target>"
			}
			continue
		}
		if gotW[i].Host == host || gotW[i].Host == addr {
			gotW[i].Host = "<target>"
		}
	}
	if c.Instances > 1 {
		key := func(w Want) string { return w.String() }
		sort.Slice(gotW, func(i, j int) bool { return key(gotW[i]) < key(gotW[j]) })
		sort.Slice(wantW, func(i, j int) bool { return key(wantW[i]) < key(wantW[j]) })
	}
	for i := range wantW {
		g, w := gotW[i], wantW[i]
		if w.Host == "<target>" && g.Host != "<target>" {
			return fmt.Errorf("HOST: request %d arrived with Host %q, the ammo has none so it must be the target's host %q", i, g.Host, host)
		}
		if g != w {
			what := "HEADERS"
			switch {
			case g.Method != w.Method:
				what = "METHOD"
			case g.URI != w.URI:
				what = "URI"
			case g.Body != w.Body:
				what = "BODY"
			case g.Host != w.Host:
				what = "HOST"
			}
			return fmt.Errorf("%s: request %d arrived as\n   %s\n  ammo plus configured headers (ammo has priority) give\n   %s", what, i, g, w)
		}
	}
	if c.NoKeep {
		if conns != len(want) {
			return fmt.Errorf("CONNS: keep-alive disabled: %d connections for %d requests", conns, len(want))
		}
	} else if conns > c.Instances && c.Gun != "http-registry" {
		// (the registration's pre-resolve dials the target once itself: connection counts are judged on directly built guns)
		return fmt.Errorf("CONNS: keep-alive enabled: %d connections from %d instances (%d requests)", conns, c.Instances, len(want))
	}
	return nil
}

func c09files(format string, thorough bool, fn func(File)) {
	red := itemAlphabet(format, true)
	full := itemAlphabet(format, false)
	l1 := Layout{FinalNL: true, JSON: "lines"}
	emit := func(items []Item) {
		if entries(items) == 0 {
			return
		}
		fn(File{Format: format, Items: items, Layout: l1})
		if format == "jsonline" && len(items) <= 2 {
			fn(File{Format: format, Items: items, Layout: Layout{FinalNL: true, JSON: "lines-omit"}})
		}
	}
	for _, a := range full {
		emit([]Item{a})
	}
	for _, a := range red {
		for _, b := range red {
			emit([]Item{a, b})
			if thorough || format == "uri" {
				for _, c := range red {
					emit([]Item{a, b, c})
				}
			}
		}
	}
}

func runC09(spec *hutil.Spec, out *hutil.Out) {
	initPlugins()
	options := [][]string{nil, {"[A: 2]"}, {"[Host: opt.example]"}, {"[A: 2]", "[B: 3]"}, {"[X-B: z]", "[host: opt.example]"}}
	idx := 0
	nkCount := 0
	bigCount := 0
	for _, format := range []string{"uri", "uripost", "raw", "jsonline"} {
		var cells []C09Cell
		c09files(format, spec.Thorough(), func(f File) {
			for oi, opt := range options {
				for _, ssl := range []bool{false, true} {
					for _, nk := range []bool{false, true} {
						for _, inst := range []int{1, 2} {
							// thin out: ssl and 2 instances only with a subset of option lists in quick
							if !spec.Thorough() && (ssl || inst == 2) && oi%2 == 1 {
								continue
							}
							idx++
							if nk {
								// one connection per request: sockets are a finite resource (TIME_WAIT), so this half of
								// the matrix is run on every 23rd file in quick, every 5th in thorough
								nkCount++
								if (!spec.Thorough() && nkCount%23 != 0) || (spec.Thorough() && nkCount%5 != 0) {
									continue
								}
							}
							if !spec.Mine(idx) {
								continue
							}
							cells = append(cells, C09Cell{File: f, Option: opt, SSL: ssl, NoKeep: nk, Instances: inst, Gun: "http"})
							if !nk && !ssl && inst == 1 && oi < 2 {
								// the same file sent again (second pass), streamed and preloaded
								for _, pp := range []struct {
									n   int
									pre bool
								}{{2, false}, {1, true}, {3, true}} {
									cells = append(cells, C09Cell{File: f, Option: opt, Instances: inst, Gun: "http", Passes: pp.n, Preload: pp.pre})
								}
							}
							if oi < 3 {
								// the connect gun: the same requests through a CONNECT tunnel opened at the target
								cells = append(cells, C09Cell{File: f, Option: opt, SSL: ssl, NoKeep: nk, Instances: inst, Gun: "connect"})
							}
							if !nk && oi < 2 && (inst == 1 || !ssl) {
								// answer log switched on (every filter): logging a request must not change what is sent
								for fi, flt := range []string{"all", "warning", "error"} {
									if fi == 0 || (idx+fi)%3 == 0 {
										cells = append(cells, C09Cell{File: f, Option: opt, SSL: ssl, Instances: inst, Gun: "http", AnswLog: flt})
									}
								}
								if !ssl && inst == 1 {
									cells = append(cells, C09Cell{File: f, Option: opt, Instances: 1, Gun: "connect", AnswLog: "all"})
								}
							}
							if !nk && inst == 1 && oi < 2 && entries(f.Items) == 1 {
								cells = append(cells, C09Cell{File: f, Option: opt, SSL: ssl, Instances: 1, Gun: "http-registry"})
							}
							if bigCount++; !nk && oi == 0 && entries(f.Items) >= 2 && bigCount%11 == 0 {
								// a target with large responses must not cost the instance its connection
								cells = append(cells, C09Cell{File: f, Option: opt, SSL: ssl, NoKeep: nk, Instances: inst, Gun: "http", RespSize: 300 << 10})
							}
						}
					}
				}
			}
		})
		for ci, c := range cells {
			if spec.Only != "" && !strings.Contains(c.Name(), spec.Only) {
				continue
			}
			if out.OverBudget() {
				return
			}
			out.Progress(c.Name())
			out.Cells++
			out.Evals++
			err := runC09Cell(c)
			n := int64(entries(c.File.Items))
			out.States += n
			out.Transitions += n
			out.Outcome(format, c.Name())
			if err != nil && strings.HasPrefix(err.Error(), "HARNESS:") {
				out.Cap("cell %s not decided: %v", c.Name(), err)
				continue
			}
			if err != nil {
				src := "file-only"
				if len(c.Option) > 0 {
					src = "with-option-headers"
				}
				out.Violate("C09|"+format+"|"+classify(err)+"|"+src, c.Name()+"\n"+err.Error()+fmt.Sprintf("\nfile: %q", render(c.File.Format, c.File.Items, c.File.Layout)),
					map[string]any{"tier": "c09", "cell": c})
			}
			if ci%499 == 0 {
				out.Sample(map[string]any{"cell": c.Name(), "file": string(render(c.File.Format, c.File.Items, c.File.Layout))})
			}
		}
	}
}

var _ = bytes.NewReader
