package vs

import "time"

// Generic wrappers used by rewritten code. Channel operations stay native.

//go:norace
func Recv[T any](c <-chan T) T {
	Before(c)
	v := <-c
	After()
	return v
}

//go:norace
func Recv2[T any](c <-chan T) (T, bool) {
	Before(c)
	v, ok := <-c
	After()
	return v, ok
}

//go:norace
func Close[T any](c chan<- T) {
	Before(c)
	close(c)
	After()
}

//go:norace
func Zero[T any](c <-chan T) (z T) { return }

//go:norace
func Sleep(d time.Duration) {
	BeforeSleep()
	time.Sleep(d)
	After()
}
