package h_prov

// Instrumented by vrewrite (go statements and channel operations become
// scheduling points): the closed-system driver around one core.Provider.

import (
	"context"
	"fmt"

	"github.com/yandex/pandora/core"
	"go.uber.org/zap"
)

// Drv is one provider under test with its consumers.
type Drv struct {
	P         core.Provider
	Consumers int
	StopAfter int  // cancel the run after this many items were delivered in total (0: never)
	Release   bool // consumers release each item after looking at it
	Extract   func(a core.Ammo) any
	Deferred  bool // look at the items only after the run (all of them are in flight at once, as with many instances)
	CancelAny bool // an extra thread cancels the run at whatever point it is scheduled
	held      []core.Ammo

	IDOf             func(a core.Ammo) (uint64, bool)
	IDs              []uint64
	Items            []any // extracted records in delivery order
	ByConsumer       [][]any
	RunErr           error
	RunDone          bool
	RunPanic         string
	ConsPanic        string
	Falses           int  // consumers that observed ok=false
	AfterFalse       bool // an Acquire after ok=false returned ok=true
	Cancelled        bool
	exited           int
	StepsAfterCancel int // Acquire calls that returned ok=true after the cancel
	Log              *zap.Logger
}

func (d *Drv) Start(ctx context.Context, cancel func()) {
	d.ByConsumer = make([][]any, d.Consumers)
	log := d.Log
	if log == nil {
		log = zap.NewNop()
	}
	go func() {
		defer func() {
			if r := recover(); r != nil {
				d.RunPanic = fmt.Sprint(r)
			}
		}()
		err := d.P.Run(ctx, core.ProviderDeps{Log: log, PoolID: "pool"})
		d.RunErr, d.RunDone = err, true
	}()
	if d.CancelAny {
		go func() {
			d.Cancelled = true
			cancel()
		}()
	}
	for c := 0; c < d.Consumers; c++ {
		c := c
		go func() {
			defer func() {
				if r := recover(); r != nil {
					d.ConsPanic = fmt.Sprint(r)
				}
				// like the engine: once every instance has finished, the pool cancels its provider
				d.exited++
				if d.exited == d.Consumers {
					cancel()
				}
			}()
			for {
				if d.StopAfter > 0 && len(d.Items) >= d.StopAfter {
					if !d.Cancelled {
						d.Cancelled = true
						cancel()
					}
					return
				}
				a, ok := d.P.Acquire()
				if !ok {
					d.Falses++
					if _, again := d.P.Acquire(); again {
						d.AfterFalse = true
					}
					return
				}
				if d.Cancelled {
					d.StepsAfterCancel++
				}
				if d.IDOf != nil {
					if id, ok := d.IDOf(a); ok {
						d.IDs = append(d.IDs, id)
					}
				}
				var rec any
				if d.Deferred {
					d.held = append(d.held, a)
					rec = len(d.held) - 1
				} else {
					rec = d.Extract(a)
				}
				d.Items = append(d.Items, rec)
				d.ByConsumer[c] = append(d.ByConsumer[c], rec)
				if d.Release && !d.Deferred {
					d.P.Release(a)
				}
			}
		}()
	}
}

// Resolve extracts the held items of a deferred run (call after the execution ended).
func (d *Drv) Resolve() {
	if !d.Deferred {
		return
	}
	for i := range d.Items {
		d.Items[i] = d.Extract(d.held[i])
	}
	for c := range d.ByConsumer {
		for i, idx := range d.ByConsumer[c] {
			d.ByConsumer[c][i] = d.Extract(d.held[idx.(int)])
		}
	}
	d.Deferred = false
}
