//go:build !race

package vsync

// Pool is a deterministic model of sync.Pool for the scheduler-based checks:
// a LIFO stack, so that a released object is handed out again by the very next
// Get. sync.Pool may return any previously Put object (or none), so every
// behaviour seen with this pool is a possible behaviour of the real one - it is
// the adversarial choice for bugs in the reuse of pooled objects, and it is
// deterministic (the real pool's per-P caches are not). Only one managed thread
// runs at a time, so no locking is needed.
type Pool struct {
	New   func() any
	items []any
}

func (p *Pool) Get() any {
	if n := len(p.items); n > 0 {
		x := p.items[n-1]
		p.items = p.items[:n-1]
		return x
	}
	if p.New != nil {
		return p.New()
	}
	return nil
}

func (p *Pool) Put(x any) {
	if x == nil {
		return
	}
	p.items = append(p.items, x)
}
