// Package h_c17 decides C17 by bounded-exhaustive enumeration: a covering set
// of valid pool configurations, each with every single mutation (unknown key at
// every map node, incompatible type at every scalar leaf, every documented
// constraint violated, placeholder substituted at every scalar leaf) decoded
// through the real config path (viper settings -> config.DecodeAndValidate into
// cli.DefaultConfig(), plugin registry included).
package h_c17

import (
	"encoding/json"
	"fmt"
	yaml "gopkg.in/yaml.v2"
	"os"
	"path/filepath"
	"reflect"
	"regexp"
	"sort"
	"strings"
	"testing"

	"github.com/davecgh/go-spew/spew"
	"github.com/spf13/afero"
	"github.com/spf13/viper"
	"github.com/yandex/pandora/cli"
	grpcimport "github.com/yandex/pandora/components/grpc/import"
	phttp "github.com/yandex/pandora/components/guns/http"
	phttpimport "github.com/yandex/pandora/components/phttp/import"
	"github.com/yandex/pandora/core"
	"github.com/yandex/pandora/core/aggregator"
	"github.com/yandex/pandora/core/aggregator/netsample"
	"github.com/yandex/pandora/core/config"
	coreimport "github.com/yandex/pandora/core/import"
	"github.com/yandex/pandora/zverif/hutil"
)

var memfs = afero.NewMemMapFs()

var bases = map[string]string{
	"http-uri-phout": `
pools:
  - id: p1
    gun:
      type: http
      target: 127.0.0.1:8080
      ssl: false
      redirect: false
      connect-ssl: false
      dial: {timeout: 2s, dns-cache: false, dual-stack: true, fallback-delay: 300ms, keep-alive: 10s}
      tls-handshake-timeout: 1s
      disable-keep-alives: false
      disable-compression: true
      max-idle-conns: 3
      max-idle-conns-per-host: 2
      idle-conn-timeout: 30s
      response-header-timeout: 1s
      expect-continue-timeout: 1s
      auto-tag: {enabled: true, uri-elements: 2, no-tag-only: true}
      answlog: {enabled: false, path: answ.log, filter: all}
      httptrace: {dump: false, trace: false}
      shared-client: {enabled: false, client-number: 1}
    ammo:
      type: uri
      file: /ammo.uri
      limit: 10
      passes: 2
      headers: ["[A: b]"]
      chosencases: [t]
      preload: false
      continueonerror: false
      maxammosize: 100
    result:
      type: phout
      destination: /phout.log
      id: true
      flush-time: 2s
      sample-queue-size: 10
      buffer-size: 1kb
    rps: {type: line, from: 1, to: 5, duration: 2s}
    startup: {type: once, times: 2}
    rps-per-instance: false
    discard_overflow: false
log: {level: debug, file: stderr}
monitoring:
  expvar: {enabled: false, port: 1234}
  cpuprofile: {enabled: false, file: cpu.log}
  memprofile: {enabled: false, file: mem.log}
`,
	"connect-raw-jsonlines": `
pools:
  - id: p2
    gun:
      type: connect
      target: 127.0.0.1:8080
      ssl: true
      connect-ssl: true
    ammo:
      type: raw
      file: /ammo.raw
      headers: ["[Host: h]"]
      preload: true
    result:
      type: jsonlines
      sink: {type: file, path: /out.jsonl}
      buffer-size: 2048
      flush-interval: 500ms
      sample-queue-size: 16
      marshal-float-with-6-digits: true
      sort-map-keys: true
    rps:
      - {type: const, ops: 2.5, duration: 1s}
      - {type: step, from: 1, to: 3, step: 1, duration: 500ms}
      - {type: once, times: 1}
    startup: {type: const, ops: 2, duration: 1s}
    rps-per-instance: true
`,
	"grpc-json-discard": `
pools:
  - id: p3
    gun:
      type: grpc
      target: 127.0.0.1:9090
      reflect_port: 9091
      timeout: 2s
      tls: false
      dial_options: {authority: a, timeout: 1s}
      answlog: {enabled: false, path: g.log, filter: error}
      shared-client: {enabled: true, client-number: 2}
    ammo:
      type: grpc/json
      file: /ammo.grpc
      limit: 5
      passes: 1
      continueonerror: true
      maxammosize: 1000
      chosencases: [a]
    result: {type: discard}
    rps: {type: unlimited, duration: 1s}
    startup: {type: instance_step, from: 1, to: 3, step: 1, stepduration: 1s}
`,
	"scenario-json-log": `
pools:
  - id: p4
    gun:
      type: http/scenario
      target: 127.0.0.1:8080
    ammo:
      type: http/scenario
      file: /sc.yaml
      limit: 3
      passes: 2
    result: {type: log}
    rps: {type: once, times: 3}
    startup:
      - {type: once, times: 1}
      - {type: const, ops: 0, duration: 1s}
      - {type: once, times: 1}
  - id: p5
    gun:
      type: grpc/scenario
      target: 127.0.0.1:9090
      timeout: 3s
    ammo:
      type: json
      source: {type: file, path: /ammo.json}
      limit: 2
      passes: 1
      ammo-queue-size: 8
      buffer-size: 2kb
    result: {type: json, sink: stdout}
    rps: {type: const, ops: 1, duration: 1s}
    startup: {type: once, times: 1}
`,
}

// free-form map nodes: an extra key there is data, not an unknown option
var freeForm = []string{"/reflect_metadata"}

func setup() {
	coreimport.Import(memfs)
	phttpimport.Import(memfs)
	grpcimport.Import(memfs)
	_ = afero.WriteFile(memfs, "/ammo.uri", []byte("/a t\n/b\n"), 0o644)
	r := "GET / HTTP/1.1\r\nHost: h\r\n\r\n"
	_ = afero.WriteFile(memfs, "/ammo.raw", []byte(fmt.Sprintf("%d t\n%s\n", len(r), r)), 0o644)
	_ = afero.WriteFile(memfs, "/ammo.grpc", []byte(`{"tag":"a","call":"p.S.M","payload":{}}`+"\n"), 0o644)
	_ = afero.WriteFile(memfs, "/ammo.json", []byte(`{"a":1}`+"\n"), 0o644)
	_ = afero.WriteFile(memfs, "/sc.yaml", []byte("requests:\n  - name: r\n    method: GET\n    uri: /\nscenarios:\n  - name: s\n    requests: [r]\n"), 0o644)
}

// rawKeyMutants: a component's section handed over as the YAML decoder produces it when a key is not
// a string (map[interface{}]interface{} with an integer or boolean key). Configuration files read
// through viper never look like that (viper turns every key into a string, and "1" is then an unknown
// key like any other), but config.Decode is also called with maps decoded by yaml directly; an
// unknown key of another type is as unknown as a misspelled one.
func rawKeyMutants(name string, base map[string]any) []mutant {
	var out []mutant
	walk(base, nil, func(p path, v any) {
		m, ok := v.(map[string]any)
		if !ok || m["type"] == nil || len(p) == 0 {
			return
		}
		for _, key := range []any{1, true, 1.5} {
			raw := map[any]any{}
			for k, e := range m {
				raw[k] = deepCopy(e)
			}
			raw[key] = "x"
			out = append(out, mutant{Base: name, Kind: "nonstring-key", Path: fmt.Sprintf("%s/%v(%T)", p.String(), key, key), conf: mutate(base, p, raw).(map[string]any), wantErr: true})
		}
	})
	return out
}

func parse(text string) (map[string]any, error) {
	v := viper.New()
	v.SetConfigType("yaml")
	if err := v.ReadConfig(strings.NewReader(text)); err != nil {
		return nil, err
	}
	return v.AllSettings(), nil
}

func deepCopy(v any) any {
	switch x := v.(type) {
	case map[string]any:
		m := make(map[string]any, len(x))
		for k, e := range x {
			m[k] = deepCopy(e)
		}
		return m
	case []any:
		l := make([]any, len(x))
		for i, e := range x {
			l[i] = deepCopy(e)
		}
		return l
	}
	return v
}

// decode is what cli.readConfig does after viper has read the file.
func decode(settings map[string]any) (conf *cli.CliConfig, err error) {
	defer func() {
		if r := recover(); r != nil {
			err = fmt.Errorf("PANIC: %v", r)
		}
	}()
	conf = cli.DefaultConfig()
	err = config.DecodeAndValidate(deepCopy(settings), conf)
	if err != nil {
		return conf, err
	}
	// gun and rps are factories: their configuration is decoded and validated when the engine
	// calls them at pool start, and an error there fails the run
	for i, p := range conf.Engine.Pools {
		if _, err := p.NewGun(); err != nil {
			return conf, fmt.Errorf("pool %d gun factory: %w", i, err)
		}
		if _, err := p.NewRPSSchedule(); err != nil {
			return conf, fmt.Errorf("pool %d rps factory: %w", i, err)
		}
	}
	return conf, nil
}

type path []any

func (p path) String() string {
	var sb strings.Builder
	for _, e := range p {
		fmt.Fprintf(&sb, "/%v", e)
	}
	return sb.String()
}

func walk(v any, p path, fn func(p path, v any)) {
	fn(p, v)
	switch x := v.(type) {
	case map[string]any:
		ks := make([]string, 0, len(x))
		for k := range x {
			ks = append(ks, k)
		}
		sort.Strings(ks)
		for _, k := range ks {
			walk(x[k], append(append(path{}, p...), k), fn)
		}
	case []any:
		for i, e := range x {
			walk(e, append(append(path{}, p...), i), fn)
		}
	}
}

func mutate(root any, p path, repl any) any {
	if len(p) == 0 {
		return repl
	}
	switch x := root.(type) {
	case map[string]any:
		m := map[string]any{}
		for k, e := range x {
			if k == p[0] {
				m[k] = mutate(e, p[1:], repl)
			} else {
				m[k] = deepCopy(e)
			}
		}
		return m
	case []any:
		l := make([]any, len(x))
		for i, e := range x {
			if i == p[0] {
				l[i] = mutate(e, p[1:], repl)
			} else {
				l[i] = deepCopy(e)
			}
		}
		return l
	}
	return root
}

var hexRe = regexp.MustCompile(`0x[0-9a-f]+`)

var dumper = spew.ConfigState{Indent: " ", DisablePointerAddresses: true, DisableCapacities: true, SortKeys: true, DisableMethods: true, MaxDepth: 12}

// fingerprint renders everything observable about a decoded configuration:
// the config values that reached each component (providers, guns made by the
// gun factory, aggregators, the tokens of the schedules) as a deep dump with
// addresses removed.
func fingerprint(c *cli.CliConfig) (s string) {
	defer func() {
		if r := recover(); r != nil {
			s = fmt.Sprintf("FINGERPRINT-PANIC: %v", r)
		}
	}()
	var sb strings.Builder
	fmt.Fprintf(&sb, "log=%+v monitoring=%s\n", c.Log, dumper.Sdump(c.Monitoring))
	for i, p := range c.Engine.Pools {
		fmt.Fprintf(&sb, "pool %d id=%q rpsPerInstance=%v discardOverflow=%v\n", i, p.ID, p.RPSPerInstance, p.DiscardOverflow)
		fmt.Fprintf(&sb, " provider: %s\n", confOf(p.Provider))
		fmt.Fprintf(&sb, " aggregator: %s\n", confOf(p.Aggregator))
		g, err := p.NewGun()
		fmt.Fprintf(&sb, " gun: err=%v %s\n", err, confOf(g))
		fmt.Fprintf(&sb, " startup: %s\n", tokens(p.StartupSchedule))
		sch, err := p.NewRPSSchedule()
		if err != nil {
			fmt.Fprintf(&sb, " rps: err=%v\n", err)
		} else {
			fmt.Fprintf(&sb, " rps: %s\n", tokens(sch))
		}
	}
	return hexRe.ReplaceAllString(sb.String(), "0x")
}

// confOf dumps the configuration-bearing fields of a component: every field
// (exported or not, at any depth <= 3) whose type name contains "Config"/"Conf"/"cfg", plus the type name.
func confOf(x any) string {
	if x == nil {
		return "<nil>"
	}
	var sb strings.Builder
	fmt.Fprintf(&sb, "%T", x)
	seen := map[uintptr]bool{}
	var rec func(v reflect.Value, depth int, name string)
	rec = func(v reflect.Value, depth int, name string) {
		if depth > 4 || !v.IsValid() {
			return
		}
		switch v.Kind() {
		case reflect.Ptr, reflect.Interface:
			if v.IsNil() {
				return
			}
			if v.Kind() == reflect.Ptr {
				if seen[v.Pointer()] {
					return
				}
				seen[v.Pointer()] = true
			}
			rec(v.Elem(), depth, name)
		case reflect.Struct:
			if !v.CanAddr() {
				// make the struct addressable so that unexported fields can be read
				c := reflect.New(v.Type()).Elem()
				if v.CanInterface() {
					c.Set(v)
					v = c
				}
			}
			tn := v.Type().Name()
			ln := strings.ToLower(tn + "|" + name)
			if strings.Contains(ln, "conf") || strings.Contains(ln, "cfg") {
				fmt.Fprintf(&sb, " %s(%s)=", name, tn)
				plain(forceExported(v), 0, &sb)
				return
			}
			for i := 0; i < v.NumField(); i++ {
				rec(v.Field(i), depth+1, v.Type().Field(i).Name)
			}
		}
	}
	rec(reflect.ValueOf(x), 0, "")
	return sb.String()
}

// forceExported makes an unexported field readable.
func forceExported(v reflect.Value) reflect.Value {
	if v.CanInterface() {
		return v
	}
	if v.CanAddr() {
		return reflect.NewAt(v.Type(), v.Addr().UnsafePointer()).Elem()
	}
	return v
}

// plain renders configuration data only: scalars, strings, nested structs, slices and maps of those.
// Functions, channels, file systems, loggers, locks and pools are not configuration and are skipped.
func plain(v reflect.Value, depth int, sb *strings.Builder) {
	if depth > 8 || !v.IsValid() {
		sb.WriteString("_")
		return
	}
	skip := func(t reflect.Type) bool {
		pp := t.PkgPath()
		for _, bad := range []string{"afero", "zap", "sync", "os", "net/http", "crypto", "bufio", "io", "context", "jsoniter", "json-iterator", "regexp"} {
			if strings.Contains(pp, bad) {
				return true
			}
		}
		return false
	}
	if skip(v.Type()) {
		sb.WriteString("_")
		return
	}
	switch v.Kind() {
	case reflect.Ptr, reflect.Interface:
		if v.IsNil() {
			sb.WriteString("nil")
			return
		}
		plain(v.Elem(), depth+1, sb)
	case reflect.Struct:
		fmt.Fprintf(sb, "%s{", v.Type().Name())
		for i := 0; i < v.NumField(); i++ {
			f := v.Field(i)
			if !f.CanInterface() && !f.CanAddr() {
				// unaddressable unexported field: render through fmt for scalars
				switch f.Kind() {
				case reflect.Bool, reflect.Int, reflect.Int64, reflect.Uint, reflect.Uint64, reflect.Float64, reflect.String, reflect.Int32, reflect.Uint32:
					fmt.Fprintf(sb, "%s:%v ", v.Type().Field(i).Name, f)
				}
				continue
			}
			fmt.Fprintf(sb, "%s:", v.Type().Field(i).Name)
			plain(forceExported(f), depth+1, sb)
			sb.WriteString(" ")
		}
		sb.WriteString("}")
	case reflect.Slice, reflect.Array:
		sb.WriteString("[")
		for i := 0; i < v.Len() && i < 50; i++ {
			plain(v.Index(i), depth+1, sb)
			sb.WriteString(",")
		}
		sb.WriteString("]")
	case reflect.Map:
		ks := v.MapKeys()
		sort.Slice(ks, func(i, j int) bool { return fmt.Sprint(ks[i]) < fmt.Sprint(ks[j]) })
		sb.WriteString("map[")
		for _, k := range ks {
			fmt.Fprintf(sb, "%v:", k)
			plain(v.MapIndex(k), depth+1, sb)
			sb.WriteString(",")
		}
		sb.WriteString("]")
	case reflect.Func, reflect.Chan, reflect.UnsafePointer:
		sb.WriteString("_")
	default:
		fmt.Fprintf(sb, "%v", v)
	}
}

func tokens(s core.Schedule) string {
	if s == nil {
		return "<nil>"
	}
	var sb strings.Builder
	fmt.Fprintf(&sb, "left=%d", s.Left())
	return sb.String() + " " + fmt.Sprintf("%T", s)
}

type mutant struct {
	Base string `json:"base"`
	Kind string `json:"kind"`
	Path string `json:"path"`
	Repl any    `json:"repl,omitempty"`
	// expectation
	wantErr bool
	conf    map[string]any
	env     map[string]string
	same    bool // fingerprint must equal the base's
	twin    map[string]any // the same configuration with the resolved text written literally: fingerprints must be equal
}

func scalarKind(v any) string {
	switch x := v.(type) {
	case bool:
		return "bool"
	case int, int64, float64:
		return "number"
	case string:
		if regexp.MustCompile(`^\d+(\.\d+)?(ms|us|s|m|h)$`).MatchString(x) {
			return "duration"
		}
		if regexp.MustCompile(`^\d+(kb|mb|b)$`).MatchString(x) {
			return "size"
		}
		return "string"
	}
	return ""
}

var propFile string

func mutants(name string, base map[string]any) []mutant {
	var out []mutant
	add := func(kind string, p path, repl any, conf any, wantErr bool) *mutant {
		out = append(out, mutant{Base: name, Kind: kind, Path: p.String(), Repl: repl, conf: conf.(map[string]any), wantErr: wantErr})
		return &out[len(out)-1]
	}
	walk(base, nil, func(p path, v any) {
		ps := p.String()
		if m, ok := v.(map[string]any); ok {
			free := false
			for _, f := range freeForm {
				if strings.HasSuffix(ps, f) {
					free = true
				}
			}
			if !free {
				mm := deepCopy(m).(map[string]any)
				mm["zz_unknown"] = 1
				add("unknown-key", p, nil, mutate(base, p, mm), true)
				// an unknown key written without a value ("flush_time:" / "step: ~")
				mmNil := deepCopy(m).(map[string]any)
				mmNil["zz_unknown"] = nil
				add("unknown-key-null", p, nil, mutate(base, p, mmNil), true)
				if len(m) > 0 {
					// a misspelling of an existing key
					ks := make([]string, 0, len(m))
					for k := range m {
						ks = append(ks, k)
					}
					sort.Strings(ks)
					k := ks[0]
					if k == "type" && len(ks) > 1 {
						k = ks[1]
					}
					mm2 := deepCopy(m).(map[string]any)
					mm2[k+"x"] = mm2[k]
					delete(mm2, k)
					_ = mm2
					mm3 := deepCopy(m).(map[string]any)
					mm3[k+"_typo"] = m[k]
					add("misspelled-key", append(append(path{}, p...), k), nil, mutate(base, p, mm3), true)
				}
			}
			return
		}
		if _, ok := v.([]any); ok {
			return
		}
		kind := scalarKind(v)
		if kind == "" || len(p) == 0 {
			return
		}
		// (ii) definitely incompatible types
		var bad []any
		switch kind {
		case "bool":
			bad = []any{"x", []any{1}, map[string]any{"a": 1}}
		case "number":
			bad = []any{"x", []any{1}, map[string]any{"a": 1}, true}
		case "duration":
			bad = []any{"x", []any{1}, map[string]any{"a": 1}, true, "1parsec"}
		case "size":
			bad = []any{"x", []any{1}, map[string]any{"a": 1}}
		case "string":
			bad = []any{[]any{1}, map[string]any{"a": 1}}
		}
		last := fmt.Sprint(p[len(p)-1])
		inList := false
		if _, ok := p[len(p)-1].(int); ok {
			inList = true
		}
		for _, b := range bad {
			if last == "sink" || last == "file" && strings.Contains(ps, "/log/") {
				continue
			}
			if inList {
				if _, isList := b.([]any); isList {
					continue
				}
			}
			add("wrong-type", p, b, mutate(base, p, b), true)
		}
		// (v) placeholders: same value through ${env:..} and ${property:..}
		if (!inList || kind == "string") && last != "type" && last != "sink" && last != "source" {
			txt := fmt.Sprint(v)
			envName := "ZV_" + strings.ToUpper(regexp.MustCompile(`[^a-zA-Z0-9]`).ReplaceAllString(ps, "_"))
			m := add("placeholder-env", p, "${env:"+envName+"}", mutate(base, p, "${env:"+envName+"}"), false)
			m.env = map[string]string{envName: txt}
			m.same = true
			m2 := add("placeholder-env-short", p, "${"+envName+"}", mutate(base, p, "${"+envName+"}"), false)
			m2.env = map[string]string{envName: txt}
			m2.same = true
			m3 := add("placeholder-property", p, nil, mutate(base, p, "${property:"+propFile+"#"+envName+"}"), false)
			m3.env = map[string]string{"__prop__" + envName: txt}
			m3.same = true
			add("placeholder-env-unset", p, nil, mutate(base, p, "${env:ZV_UNSET_"+envName+"}"), true)
			// unset, although a variable whose name differs only in letter case is set
			m4 := add("placeholder-env-unset-case-twin", p, nil, mutate(base, p, "${env:"+strings.ToLower(envName)+"}"), true)
			m4.env = map[string]string{envName: txt}
			add("placeholder-property-missing-key", p, nil, mutate(base, p, "${property:"+propFile+"#nosuch_ZV"+"}"), true)
			add("placeholder-property-missing-file", p, nil, mutate(base, p, "${property:/nosuch/file#k}"), true)
			if kind == "string" && txt != "" {
				// one variable used several times in one string, in every accepted spelling, next to a second
				// variable and literal text; compared with the same configuration written out literally
				m5 := add("placeholder-spellings", p, nil, mutate(base, p, "${env:"+envName+"}${ENV:"+envName+"}${ "+envName+" }${env: "+envName+" }${Env:"+envName+"_B}x${"+envName+"}"), false)
				m5.env = map[string]string{envName: txt, envName + "_B": "b"}
				m5.twin = mutate(base, p, txt+txt+txt+txt+"bx"+txt).(map[string]any)
			}
		}
	})
	return out
}

// constraint violations (iii): path suffix -> bad values
var constraints = []struct {
	suffix string
	typ    string // required "type" of the enclosing map ("" any)
	bad    []any
}{
	{"/ops", "const", []any{-1, -0.5}}, {"/duration", "const", []any{"0s", "999us", "-1s"}},
	{"/from", "line", []any{-1}}, {"/to", "line", []any{-1}}, {"/duration", "line", []any{"0s", "500us"}},
	{"/from", "step", []any{-1}}, {"/to", "step", []any{-2}}, {"/step", "step", []any{0, -1}}, {"/duration", "step", []any{"0s"}},
	{"/times", "once", []any{0, -1}},
	{"/duration", "unlimited", []any{"0s", "10us"}},
	{"/from", "instance_step", []any{-1}}, {"/to", "instance_step", []any{-1}}, {"/step", "instance_step", []any{0}}, {"/stepduration", "instance_step", []any{"0s"}},
	{"/sample-queue-size", "jsonlines", []any{0, -1}}, {"/ammo-queue-size", "json", []any{0, -3}},
	{"/limit", "", []any{-1}}, {"/passes", "", []any{-1}},
	{"/uri-elements", "", []any{0, -1}},
	{"/target", "", []any{"", "no-port", "host:notaport", ":", ":0", ":99999", ":80a", ":-1", "host:", "127.0.0.1:65536", "bad host:80"}},
	{"/port", "", []any{0}},
	{"/path", "file", []any{""}},
}

func constraintMutants(name string, base map[string]any) []mutant {
	var out []mutant
	walk(base, nil, func(p path, v any) {
		if len(p) == 0 {
			return
		}
		ps := p.String()
		for _, c := range constraints {
			if !strings.HasSuffix(ps, c.suffix) {
				continue
			}
			if c.typ != "" {
				// enclosing map must have that type
				var cur any = base
				for _, e := range p[:len(p)-1] {
					switch x := cur.(type) {
					case map[string]any:
						cur = x[e.(string)]
					case []any:
						cur = x[e.(int)]
					}
				}
				m, _ := cur.(map[string]any)
				if m == nil || m["type"] != c.typ {
					continue
				}
			}
			for _, b := range c.bad {
				if c.suffix == "/target" && strings.Contains(ps, "/gun/") && b != "" {
					// only the http guns validate the endpoint form
					var cur any = base
					for _, e := range p[:len(p)-1] {
						switch x := cur.(type) {
						case map[string]any:
							cur = x[e.(string)]
						case []any:
							cur = x[e.(int)]
						}
					}
					if t := fmt.Sprint(cur.(map[string]any)["type"]); strings.HasPrefix(t, "grpc") {
						continue
					}
				}
				out = append(out, mutant{Base: name, Kind: "constraint", Path: ps, Repl: b, conf: mutate(base, p, b).(map[string]any), wantErr: true})
			}
		}
	})
	// required sections
	pools := base["pools"].([]any)
	// a schedule section that gives nothing but its type: the defaults (zero times / zero duration)
	// violate the documented minimum of every schedule type, so this is an error, not a silent default
	for i := range pools {
		for _, k := range []string{"rps", "startup"} {
			// (step and instance_step are left out: were their zero step ever accepted, building the
			// schedule would not terminate, and the harness must end with a verdict)
			for _, typ := range []string{"once", "const", "line", "unlimited"} {
				for _, asList := range []bool{false, true} {
					var v any = map[string]any{"type": typ}
					if asList {
						v = []any{map[string]any{"type": "once", "times": 1}, map[string]any{"type": typ}}
					}
					pm := deepCopy(pools[i]).(map[string]any)
					pm[k] = v
					out = append(out, mutant{Base: name, Kind: "only-type", Path: fmt.Sprintf("/pools/%d/%s=%s,list=%v", i, k, typ, asList), conf: mutate(base, path{"pools", i}, pm).(map[string]any), wantErr: true})
				}
			}
		}
	}
	for i := range pools {
		for _, k := range []string{"gun", "ammo", "result", "rps", "startup"} {
			pm := deepCopy(pools[i]).(map[string]any)
			delete(pm, k)
			out = append(out, mutant{Base: name, Kind: "required-missing", Path: fmt.Sprintf("/pools/%d/%s", i, k), conf: mutate(base, path{"pools", i}, pm).(map[string]any), wantErr: true})
		}
	}
	return out
}

func (m mutant) Name() string {
	return fmt.Sprintf("%s|%s|%s|%v", m.Base, m.Kind, m.Path, m.Repl)
}

func runMutant(m mutant, baseFP string) error {
	var props []string
	for k, v := range m.env {
		if strings.HasPrefix(k, "__prop__") {
			name := strings.TrimPrefix(k, "__prop__")
			// neighbours whose names extend the key, before and after it
			props = append(props, name+"_tls=WRONG-LONGER-KEY", name+"="+v, name+"2=WRONG-LONGER-KEY")
		} else {
			os.Setenv(k, v)
			defer os.Unsetenv(k)
		}
	}
	if props != nil {
		_ = os.WriteFile(propFile, []byte("other=1\n\nnosuch_ZV\n"+strings.Join(props, "\n")+"\n"), 0o644)
	} else {
		// keys that merely start like the ones asked for below must not satisfy a lookup
		_ = os.WriteFile(propFile, []byte("other=1\n\nnosuch_ZV\nnosuch_ZV_more=1\n"), 0o644)
	}
	twinFP := ""
	if m.twin != nil {
		tc, terr := decode(m.twin)
		if terr != nil {
			return nil // the literal text is not a valid value of this field: nothing to compare
		}
		twinFP = fingerprint(tc)
	}
	conf, err := decode(m.conf)
	if err != nil && strings.HasPrefix(err.Error(), "PANIC") {
		return fmt.Errorf("PANIC: %v", err)
	}
	if m.wantErr {
		if err == nil {
			return fmt.Errorf("ACCEPTED: configuration decoded without error")
		}
		return nil
	}
	if err != nil {
		return fmt.Errorf("REJECTED: %v", firstLine(err.Error()))
	}
	if m.twin != nil {
		if fp := fingerprint(conf); fp != twinFP {
			return fmt.Errorf("DIFFERENT: decoded configuration differs from the one given literally:\n%s", diff(twinFP, fp))
		}
	}
	if m.same {
		if fp := fingerprint(conf); fp != baseFP {
			return fmt.Errorf("DIFFERENT: decoded configuration differs from the one given literally:\n%s", diff(baseFP, fp))
		}
	}
	return nil
}

func firstLine(s string) string {
	if len(s) > 600 {
		s = s[:600]
	}
	return s
}

func diff(a, b string) string {
	la, lb := strings.Split(a, "\n"), strings.Split(b, "\n")
	var sb strings.Builder
	for i := 0; i < len(la) || i < len(lb); i++ {
		var x, y string
		if i < len(la) {
			x = la[i]
		}
		if i < len(lb) {
			y = lb[i]
		}
		if x != y {
			j := 0
			for j < len(x) && j < len(y) && x[j] == y[j] {
				j++
			}
			s := j - 40
			if s < 0 {
				s = 0
			}
			e1, e2 := j+80, j+80
			if e1 > len(x) {
				e1 = len(x)
			}
			if e2 > len(y) {
				e2 = len(y)
			}
			fmt.Fprintf(&sb, "  literal:     ...%s\n  placeholder: ...%s\n", x[s:e1], y[s:e2])
			break
		}
	}
	return sb.String()
}

func classify(err error) string {
	s := err.Error()
	if i := strings.Index(s, ":"); i > 0 && i < 24 {
		return s[:i]
	}
	return "other"
}

// ---- (iv) defaults

type defCase struct {
	name string
	mk   func() any // pointer to a default config
}

var defCases = []defCase{
	{"http-gun", func() any { c := phttp.DefaultHTTPGunConfig(); return &c }},
	{"http2-gun", func() any { c := phttp.DefaultHTTP2GunConfig(); return &c }},
	{"connect-gun", func() any { c := phttp.DefaultConnectGunConfig(); return &c }},
	{"phout", func() any { c := netsample.DefaultPhoutConfig(); return &c }},
	{"jsonlines", func() any { c := aggregator.DefaultJSONLinesAggregatorConfig(); return &c }},
	{"cli", func() any { return cli.DefaultConfig() }},
}

// leafFields lists config keys (with a value to set) of a struct type, following squash and nested structs.
func leafFields(t reflect.Type, prefix []string, out *[][2]any) {
	for t.Kind() == reflect.Ptr {
		t = t.Elem()
	}
	if t.Kind() != reflect.Struct {
		return
	}
	for i := 0; i < t.NumField(); i++ {
		f := t.Field(i)
		if f.PkgPath != "" {
			continue
		}
		tag := f.Tag.Get("config")
		name := strings.Split(tag, ",")[0]
		squash := strings.Contains(tag, "squash")
		if name == "-" {
			continue
		}
		if name == "" {
			name = strings.ToLower(f.Name)
		}
		ft := f.Type
		for ft.Kind() == reflect.Ptr {
			ft = ft.Elem()
		}
		if squash || (f.Anonymous && tag == "") {
			leafFields(ft, prefix, out)
			continue
		}
		p := append(append([]string{}, prefix...), name)
		var val any
		switch ft.Kind() {
		case reflect.Bool:
			val = true
		case reflect.Int, reflect.Int64, reflect.Int32, reflect.Uint, reflect.Uint64:
			val = 7
			if ft.String() == "time.Duration" {
				val = "7s"
			}
		case reflect.Float64:
			val = 7.5
		case reflect.String:
			val = "zz"
			if name == "target" {
				val = "127.0.0.1:1"
			}
		case reflect.Struct:
			leafFields(ft, p, out)
			continue
		default:
			continue
		}
		*out = append(*out, [2]any{p, val})
	}
}

func nest(p []string, v any) map[string]any {
	if len(p) == 1 {
		return map[string]any{p[0]: v}
	}
	return map[string]any{p[0]: nest(p[1:], v)}
}

func get(x any, p []string) (v reflect.Value, ok bool) {
	v = reflect.ValueOf(x)
	for _, k := range p {
		for v.Kind() == reflect.Ptr {
			if v.IsNil() {
				return v, false
			}
			v = v.Elem()
		}
		f, found := findField(v, k)
		if !found {
			return v, false
		}
		v = f
	}
	return v, true
}

func findField(v reflect.Value, key string) (reflect.Value, bool) {
	t := v.Type()
	for i := 0; i < t.NumField(); i++ {
		f := t.Field(i)
		tag := f.Tag.Get("config")
		name := strings.Split(tag, ",")[0]
		if name == "" {
			name = strings.ToLower(f.Name)
		}
		fv := v.Field(i)
		if strings.Contains(tag, "squash") || (f.Anonymous && tag == "") {
			for fv.Kind() == reflect.Ptr {
				fv = fv.Elem()
			}
			if r, ok := findField(fv, key); ok {
				return r, true
			}
			continue
		}
		if name == key {
			return fv, true
		}
	}
	return reflect.Value{}, false
}

func runDefaults(out *hutil.Out) {
	for _, dc := range defCases {
		var leaves [][2]any
		leafFields(reflect.TypeOf(dc.mk()), nil, &leaves)
		for _, lf := range leaves {
			p := lf[0].([]string)
			if dc.name == "cli" && (p[0] == "pools" || p[0] == "log" && p[1] == "level") {
				continue
			}
			conf := dc.mk()
			def := dc.mk()
			if dv, ok := get(def, p); ok {
				switch dv.Kind() {
				case reflect.Bool:
					lf[1] = !dv.Bool()
				case reflect.Int, reflect.Int64, reflect.Int32:
					if dv.Type().String() != "time.Duration" {
						lf[1] = int(dv.Int()) + 7
					} else if dv.Int() == int64(7e9) {
						lf[1] = "8s"
					}
				case reflect.String:
					if dv.String() == lf[1] {
						lf[1] = "yy"
					}
				}
			}
			out.Evals++
			out.Cells++
			err := config.Decode(nest(p, lf[1]), conf)
			key := "C17|defaults|" + dc.name
			if err != nil {
				out.Violate(key+"|REJECTED", fmt.Sprintf("%s: setting only %v=%v is rejected: %v", dc.name, p, lf[1], firstLine(err.Error())), map[string]any{"tier": "defaults", "case": dc.name, "field": p})
				continue
			}
			// every other leaf must still hold the default
			for _, other := range leaves {
				op := other[0].([]string)
				if strings.Join(op, "/") == strings.Join(p, "/") {
					continue
				}
				gv, ok1 := get(conf, op)
				dv, ok2 := get(def, op)
				if !ok1 || !ok2 {
					continue
				}
				out.States++
				if !reflect.DeepEqual(gv.Interface(), dv.Interface()) {
					out.Violate(key+"|DEFAULT-LOST", fmt.Sprintf("%s: after setting only %v, option %v is %v, its documented default is %v", dc.name, p, op, gv.Interface(), dv.Interface()),
						map[string]any{"tier": "defaults", "case": dc.name, "field": p})
					break
				}
			}
			gv, ok := get(conf, p)
			if ok && fmt.Sprint(gv.Interface()) == fmt.Sprint(mustGet(def, p)) {
				out.Violate(key+"|NOT-APPLIED", fmt.Sprintf("%s: setting %v=%v had no effect (still %v)", dc.name, p, lf[1], gv.Interface()), map[string]any{"tier": "defaults", "case": dc.name, "field": p})
			}
			out.Outcome("defaults", dc.name+strings.Join(p, "/"))
		}
	}
}

func mustGet(x any, p []string) any {
	v, ok := get(x, p)
	if !ok {
		return nil
	}
	return v.Interface()
}

// discard_overflow default through the real cli.readConfig on a file
func runDiscardDefault(out *hutil.Out) {
	for name, text := range bases {
		os.Setenv("ZV_C17_DISC_F", "false")
		os.Setenv("ZV_C17_DISC_T", "true")
		for _, variant := range []string{"absent", "false", "true", "${env:ZV_C17_DISC_F}", "${env:ZV_C17_DISC_T}"} {
			t := text
			re := regexp.MustCompile(`(?m)^\s*discard_overflow:.*\n`)
			t = re.ReplaceAllString(t, "")
			want := true
			if variant != "absent" {
				t = strings.Replace(t, "    gun:\n", "    discard_overflow: "+variant+"\n    gun:\n", -1)
				want = variant == "true" || variant == "${env:ZV_C17_DISC_T}" // a placeholder is a given value, not an absent key
			}
			f := filepath.Join(".", "zv_c17_conf.yaml")
			_ = os.WriteFile(f, []byte(t), 0o644)
			for _, via := range []string{"file", "stdin"} {
				out.Evals++
				out.Cells++
				var conf *cli.CliConfig
				if via == "file" {
					conf = cli.ZvReadConfig([]string{f})
				} else {
					// `pandora -` reads the configuration from standard input
					in, err := os.Open(f)
					if err != nil {
						continue
					}
					saved := os.Stdin
					os.Stdin = in
					conf = cli.ZvReadConfig([]string{"-"})
					os.Stdin = saved
					in.Close()
				}
				for i, p := range conf.Engine.Pools {
					out.States++
					if p.DiscardOverflow != want {
						out.Violate("C17|discard_overflow|"+variant+"|"+via, fmt.Sprintf("%s pool %d (config read from %s): discard_overflow %s in the config, decoded as %v (documented: on when absent)", name, i, via, variant, p.DiscardOverflow),
							map[string]any{"tier": "discard", "base": name, "variant": variant})
					}
				}
				out.Outcome("discard", name+variant+via)
			}
		}
	}
}

// several pools, each with its own discard_overflow setting (absent / false / true): the default is
// filled in per pool.
func runDiscardMulti(out *hutil.Out) {
	text := bases["http-uri-phout"]
	var doc map[string]any
	if err := yaml.Unmarshal([]byte(text), &doc); err != nil {
		out.HarnessErr = "discard-multi: " + err.Error()
		return
	}
	pools, _ := doc["pools"].([]any)
	if len(pools) == 0 {
		out.HarnessErr = "discard-multi: base has no pools"
		return
	}
	variants := []string{"absent", "false", "true"}
	for n := 2; n <= 3; n++ {
		total := 1
		for i := 0; i < n; i++ {
			total *= 3
		}
		for code := 0; code < total; code++ {
			var ps []any
			var sel []string
			c := code
			for i := 0; i < n; i++ {
				v := variants[c%3]
				c /= 3
				sel = append(sel, v)
				pm := map[any]any{}
				for k, v := range pools[0].(map[any]any) {
					pm[k] = v
				}
				pm["id"] = fmt.Sprintf("p%d", i+1)
				delete(pm, "discard_overflow")
				if v != "absent" {
					pm["discard_overflow"] = v == "true"
				}
				ps = append(ps, pm)
			}
			d2 := map[string]any{}
			for k, v := range doc {
				d2[k] = v
			}
			d2["pools"] = ps
			b, err := yaml.Marshal(d2)
			if err != nil {
				out.HarnessErr = "discard-multi: " + err.Error()
				return
			}
			f := filepath.Join(".", "zv_c17_conf.yaml")
			_ = os.WriteFile(f, b, 0o644)
			out.Evals++
			out.Cells++
			conf := cli.ZvReadConfig([]string{f})
			if len(conf.Engine.Pools) != n {
				out.Violate("C17|discard_overflow|multi|pools", fmt.Sprintf("%d pools configured, %d decoded", n, len(conf.Engine.Pools)), map[string]any{"tier": "discard-multi", "sel": sel})
				continue
			}
			for i, p := range conf.Engine.Pools {
				out.States++
				want := sel[i] != "false"
				if p.DiscardOverflow != want {
					out.Violate("C17|discard_overflow|multi|"+sel[i], fmt.Sprintf("pools with discard_overflow %v: pool %d decoded as %v (documented: on when absent, else as written)", sel, i+1, p.DiscardOverflow),
						map[string]any{"tier": "discard-multi", "sel": sel})
				}
			}
			out.Outcome("discard-multi", fmt.Sprint(sel))
		}
	}
}

func TestWorker(t *testing.T) {
	spec, out := hutil.Load()
	if spec == nil {
		t.Skip("no VERIF_SPEC")
	}
	defer out.Save()
	setup()
	wd, _ := os.Getwd()
	propFile = filepath.Join(wd, fmt.Sprintf("zv_c17_%d.properties", spec.Worker))
	defer os.Remove(propFile)
	var names []string
	for n := range bases {
		names = append(names, n)
	}
	sort.Strings(names)
	type job struct {
		m      mutant
		baseFP string
	}
	var jobs []job
	for _, n := range names {
		base, err := parse(bases[n])
		if err != nil {
			out.HarnessErr = "base " + n + " does not parse: " + err.Error()
			return
		}
		c1, err := decode(base)
		if err != nil {
			out.HarnessErr = "base " + n + " is not accepted: " + firstLine(err.Error())
			return
		}
		fp1 := fingerprint(c1)
		c2, _ := decode(base)
		if fp2 := fingerprint(c2); fp1 != fp2 {
			out.HarnessErr = "fingerprint of base " + n + " is not deterministic:\n" + diff(fp1, fp2)
			return
		}
		if spec.Worker == 0 && n == names[0] {
			out.Sample(map[string]any{"base": n, "fingerprint_head": firstLine(fp1)})
		}
		for _, m := range append(mutants(n, base), constraintMutants(n, base)...) {
			jobs = append(jobs, job{m, fp1})
		}
		for _, m := range rawKeyMutants(n, base) {
			jobs = append(jobs, job{m, fp1})
		}
	}
	if spec.Replay != nil {
		var rp struct {
			Name string `json:"name"`
			Tier string `json:"tier"`
		}
		_ = json.Unmarshal(spec.Replay, &rp)
		if rp.Tier != "" {
			runDefaults(out)
			runDiscardDefault(out)
			runDiscardMulti(out)
			return
		}
		for _, j := range jobs {
			if j.m.Name() == rp.Name {
				err := runMutant(j.m, j.baseFP)
				b, _ := json.MarshalIndent(j.m.conf, "", " ")
				fmt.Printf("mutant %s\nconfig: %s\nresult: %v\n", rp.Name, b, err)
				if err != nil {
					out.Violate("C17|replay", err.Error(), rp)
				}
			}
		}
		return
	}
	for ji, j := range jobs {
		if !spec.Mine(ji) || (spec.Only != "" && !strings.Contains(j.m.Name(), spec.Only)) {
			continue
		}
		out.Cells++
		out.Evals++
		out.States++
		out.Transitions++
		err := runMutant(j.m, j.baseFP)
		out.Outcome(j.m.Kind, j.m.Name())
		out.Extra["mutants_"+j.m.Kind]++
		if err != nil {
			sec := "other"
			for _, s := range []string{"gun", "ammo", "result", "rps", "startup", "log", "monitoring"} {
				if strings.Contains(j.m.Path, "/"+s) {
					sec = s
					break
				}
			}
			out.Violate("C17|"+j.m.Kind+"|"+classify(err)+"|"+sec, j.m.Name()+"\n"+err.Error(), map[string]any{"name": j.m.Name()})
		}
		if ji%997 == 0 {
			out.Sample(map[string]any{"mutant": j.m.Name()})
		}
	}
	if spec.Worker == 0 {
		runDefaults(out)
		runDiscardDefault(out)
		runDiscardMulti(out)
		_ = os.Remove("zv_c17_conf.yaml")
	}
}
