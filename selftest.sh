#!/bin/bash
# Detection demonstration: apply each mutant patch to /repo, run the property's quick check,
# expect exit 1 with a VIOLATION line, then revert. usage: selftest.sh [pattern]
cd "$(dirname "$0")"
pat=${1:-}
rc=0
for p in mutants/*${pat}*.patch; do
  id=$(basename "$p" | cut -d_ -f1)
  git -C /repo apply "$PWD/$p" || { echo "SELFTEST $p: patch does not apply"; rc=1; continue; }
  out=$(timeout 1500 ./vcheck run "$id" --tier quick 2>&1); code=$?
  git -C /repo checkout -- . ; git -C /repo clean -fdq
  if [ $code -eq 1 ] && echo "$out" | grep -q "^VIOLATION property=$id"; then
    echo "SELFTEST $p: DETECTED ($(echo "$out" | grep -m1 '  key='))"
  else
    echo "SELFTEST $p: MISSED (exit $code)"; echo "$out" | tail -5; rc=1
  fi
done
exit $rc
