package httpscenario

import (
	phttp "github.com/yandex/pandora/components/guns/http"
	"go.uber.org/zap"
)

// Overlay-only export for the verification harnesses (not part of the repository).
func ZvNewGun(cc phttp.ClientConstructor, cfg phttp.GunConfig) *ScenarioGun {
	return newScenarioGun(cc, cfg, nil)
}

// ZvNewGunLog: the same with an answer log.
func ZvNewGunLog(cc phttp.ClientConstructor, cfg phttp.GunConfig, answLog *zap.Logger) *ScenarioGun {
	return newScenarioGun(cc, cfg, answLog)
}
