package h_scn

import "go.uber.org/zap"

var nopLog = zap.NewNop()
